"""C11 — greedy rewrite driver: action flag, notifications, handler wiring, worklist hygiene, fixpoint loop."""

from __future__ import annotations

import ast
import re

from ..astutil import alpha_same, attr_chain, call_attr, calls_in, guard_facts, inline_chain_aliases, unparse, walk_local, text_facts
from ..cfg import CFG
from ..setbuild import describe as describe_set
from ..dataflow import reaching_defs, resolved_text
from ..report import Finding, Report
from ..srcindex import AnalysisError, FuncInfo, Index, raw_funcs

PR = "xdsl/pattern_rewriter.py"
BUILDER = "xdsl/builder.py"

FLAG = "self.has_done_action"
# IR-mutating primitives a rewriter method may reach directly
VALUE_MUTATORS = {"replace_all_uses_with", "replace_uses_with_if", "erase", "insert_arg", "erase_arg", "add_op", "add_ops",
                  "insert_op_before", "insert_op_after", "insert_ops_before", "insert_ops_after", "detach_op", "detach",
                  "erase_op", "add_block", "insert_block", "insert_block_before", "insert_block_after", "detach_block",
                  "erase_block", "move_blocks", "move_blocks_before", "split_before", "drop_all_references"}
NOTIFY = {"handle_operation_insertion", "handle_operation_removal", "handle_operation_modification", "handle_operation_replacement", "handle_block_creation"}


def _is_rewriter_static(c: ast.Call) -> bool:
    return isinstance(c.func, ast.Attribute) and isinstance(c.func.value, ast.Name) and c.func.value.id == "Rewriter"


def _self_call(c: ast.Call) -> str | None:
    f = c.func
    if isinstance(f, ast.Attribute):
        if isinstance(f.value, ast.Name) and f.value.id == "self":
            return f.attr
        if isinstance(f.value, ast.Call) and isinstance(f.value.func, ast.Name) and f.value.func.id == "super":
            return "super:" + f.attr
    return None


def _flag_nodes(f: FuncInfo, cfg: CFG) -> set[int]:
    return {cfg.node_of(n) for n in walk_local(f.node) if isinstance(n, ast.Assign) and unparse(n.targets[0]) == FLAG and isinstance(n.value, ast.Constant) and n.value.value is True}


def check_insertion_owner(idx: Index, rep: Report) -> None:
    """`Builder.insert` is the virtual entry point of an insertion: Builder.insert_op links the operation and notifies the
    listener, and PatternRewriter.insert adds the 'the pattern did something' flag on top.  Code that holds a builder and
    performs the two steps by hand (Rewriter.insert_op + handle_operation_insertion) bypasses whatever the builder's
    class adds -- for a PatternRewriter the flag, so the driver stops before the fixpoint although the IR changed."""
    r = rep.rule("C11.R7", "the insertion notification is sent only by Builder.insert_op: nobody else pairs Rewriter.insert_op with handle_operation_insertion by hand (a PatternRewriter's insert also records the action)", floor=1)
    n = 0
    for rel in ("xdsl/builder.py", "xdsl/pattern_rewriter.py", "xdsl/rewriter.py"):
        for f in raw_funcs(idx.module(rel)):
            for c in calls_in(f.node):
                if call_attr(c) != "handle_operation_insertion":
                    continue
                n += 1
                inst = f"{f.fq}:{c.lineno - f.node.lineno}"
                owner_ok = f.cls is not None and f.cls.name in ("Builder", "BuilderListener", "PatternRewriter", "PatternRewriterListener") and isinstance(c.func, ast.Attribute) and unparse(c.func.value) in ("self", "super()")
                if owner_ok:
                    r.ok(inst, f"{f.loc} notification sent by the builder's own insert_op")
                else:
                    r.fail(inst, Finding("C11.R7", f.fq, "insertion-notified-by-hand", f"`{unparse(c)}` notifies the listener of an insertion outside Builder.insert_op: the insertion itself was done without `{unparse(c.func.value) if isinstance(c.func, ast.Attribute) else 'builder'}.insert(...)`, so a PatternRewriter acting as the implicit builder never sets has_done_action for it: rewrite_module reports 'nothing changed' and no further sweep runs although operations were created", f"{rel}:{c.lineno}"))
    if n == 0:
        raise AnalysisError("no handle_operation_insertion call found in builder.py / pattern_rewriter.py (Builder.insert_op expected)")


def check(idx: Index, rep: Report, tier: str) -> str:
    pr_cls = idx.cls(PR, "PatternRewriter")
    mro = idx.mro(pr_cls)
    names = [c.name for c in mro]
    if names[:1] != ["PatternRewriter"] or "Builder" not in names or "PatternRewriterListener" not in names:
        raise AnalysisError(f"unexpected MRO of PatternRewriter: {names}")

    # all methods visible on a PatternRewriter instance (first definition along the MRO)
    visible: dict[str, FuncInfo] = {}
    for c in mro:
        for nm, defs in c.methods.items():
            for d in defs:
                if any(x.endswith("overload") or x.endswith(".setter") or x == "property" or x == "staticmethod" for x in d.decorator_names()):
                    continue
                visible.setdefault(nm, d)

    def resolve_self_call(caller: FuncInfo, tag: str) -> FuncInfo | None:
        if tag.startswith("super:"):
            nm = tag[6:]
            start = [i for i, c in enumerate(mro) if caller.cls is not None and c.fq == caller.cls.fq]
            for c in mro[(start[0] + 1 if start else 0):]:
                m = c.method(nm)
                if m is not None:
                    return m
            return None
        return visible.get(tag)

    rep.run(check_insertion_owner, idx, rep)
    # ---- R1: action flag
    r1 = rep.rule("C11.R1", "every PatternRewriter method that reaches an IR-mutating primitive sets has_done_action on every path on which the primitive is reached", floor=10)
    memo: dict[str, bool] = {}

    def direct_mutations(f: FuncInfo) -> list[ast.Call]:
        out = []
        for c in calls_in(f.node):
            if _is_rewriter_static(c):
                out.append(c)
            elif isinstance(c.func, ast.Attribute) and c.func.attr in VALUE_MUTATORS and _self_call(c) is None:
                recv = unparse(c.func.value)
                if recv.startswith("self._worklist") or recv in ("self",):
                    continue
                out.append(c)
        return out

    def sets_flag_always(f: FuncInfo, depth: int = 0) -> bool:
        """Does f set the flag on every path to normal exit (directly or through a rewriter method that does)?"""
        if f.fq in memo:
            return memo[f.fq]
        memo[f.fq] = False
        cfg = CFG(f.node)
        nodes = _flag_nodes(f, cfg)
        if depth < 4:
            for c in calls_in(f.node):
                tag = _self_call(c)
                if tag:
                    g = resolve_self_call(f, tag)
                    if g is not None and g.fq != f.fq and sets_flag_always(g, depth + 1):
                        nodes.add(cfg.node_of(c))
        res = bool(nodes) and cfg.path_avoiding(cfg.entry, cfg.exit, lambda n: n.id in nodes, follow_exc=False) is None
        memo[f.fq] = res
        return res

    mut_memo: dict[str, bool] = {}

    def mutates(f: FuncInfo, depth: int = 0) -> bool:
        """Does f reach an IR-mutating primitive, directly or through super() / self calls?"""
        if f.fq in mut_memo:
            return mut_memo[f.fq]
        mut_memo[f.fq] = False
        res = bool(direct_mutations(f))
        if not res and depth < 4:
            for c in calls_in(f.node):
                tag = _self_call(c)
                if tag and tag.startswith("super:"):
                    g = resolve_self_call(f, tag)
                    if g is not None and g.fq != f.fq and mutates(g, depth + 1):
                        res = True
        mut_memo[f.fq] = res
        return res

    def super_mutations(f: FuncInfo) -> list[ast.Call]:
        """`super().m(...)` calls whose target (the shadowed definition, not otherwise visited) mutates the IR."""
        out = []
        for c in calls_in(f.node):
            tag = _self_call(c)
            if tag and tag.startswith("super:"):
                g = resolve_self_call(f, tag)
                if g is not None and g.fq != f.fq and mutates(g):
                    out.append(c)
        return out

    n_mut = 0
    for nm, f in sorted(visible.items()):
        if nm.startswith("__") or nm.startswith("handle_") or nm == "extend_from_listener":
            continue
        if f.module.relpath not in (PR, BUILDER):
            continue
        muts = direct_mutations(f) + super_mutations(f)
        if not muts:
            # pure delegation is fine if callee is verified separately (every visible method is visited)
            continue
        n_mut += 1
        cfg = CFG(f.node)
        flag = _flag_nodes(f, cfg)
        for c in calls_in(f.node):
            tag = _self_call(c)
            if tag:
                g = resolve_self_call(f, tag)
                if g is not None and g.fq != f.fq and sets_flag_always(g):
                    flag.add(cfg.node_of(c))
        for c in muts:
            nc = cfg.node_of(c)
            inst = f"{pr_cls.name}.{nm}:{unparse(c.func)}"
            before = cfg.path_avoiding(cfg.entry, nc, lambda n: n.id in flag, follow_exc=False) is None or nc in flag
            after = cfg.path_avoiding(nc, cfg.exit, lambda n: n.id in flag, follow_exc=False) is None
            if before or after:
                r1.ok(inst, f"{f.loc} {nm}: flag set on every path through `{unparse(c.func)}(...)`")
                continue
            # accepted conditional idiom: "set iff the list of modified users is non-empty" for use re-routing
            if isinstance(c.func, ast.Attribute) and c.func.attr in ("replace_all_uses_with", "replace_uses_with_if"):
                recv = unparse(c.func.value)
                cond_sets = []
                for s in walk_local(f.node):
                    if isinstance(s, ast.Assign) and unparse(s.targets[0]) == FLAG:
                        for t, pol in guard_facts(f.node, s):
                            # truthiness of a collection: `L`, `len(L) > 0`, `len(L) != 0`, `len(L) >= 1`
                            if pol and isinstance(t, ast.Compare) and len(t.ops) == 1 and isinstance(t.left, ast.Call) and unparse(t.left.func) == "len" and len(t.left.args) == 1 and (unparse(t.ops[0].__class__.__name__ and t.comparators[0]), type(t.ops[0]).__name__) in (("0", "Gt"), ("0", "NotEq"), ("1", "GtE")):
                                t = t.left.args[0]
                            if pol and isinstance(t, (ast.Name, ast.Attribute)):
                                cond_sets.append((s, t))
                ok = False
                for s, t in cond_sets:
                    tt = unparse(t)
                    if isinstance(t, ast.Name):
                        defs = [v for _, v in reaching_defs(cfg, t.id, cfg.node_of(s)) if v is not None]
                        collects = len(defs) == 1 and re.fullmatch(rf"\[(\w+)\.operation for \1 in {re.escape(recv)}\.uses\]", unparse(defs[0])) is not None
                        if not collects and defs and all(unparse(d) in ("[]", "list()") for d in defs):
                            # explicit loop: L = []; for use in recv.uses: L.append(use.operation)
                            for w_ in walk_local(f.node):
                                if isinstance(w_, ast.For) and unparse(w_.iter) == f"{recv}.uses" and isinstance(w_.target, ast.Name):
                                    if any(isinstance(c_, ast.Call) and unparse(c_.func) == f"{t.id}.append" and len(c_.args) == 1 and unparse(c_.args[0]) == f"{w_.target.id}.operation" for c_ in calls_in(w_)) and nc in cfg.reachable(cfg.node_of(w_)):
                                        collects = True
                        if collects:
                            # the list must be computed before the re-routing and the flag set after it on all paths
                            dn = [nid for nid, v in reaching_defs(cfg, t.id, cfg.node_of(s))][0]
                            if nc in cfg.reachable(dn) and cfg.node_of(s) in cfg.reachable(nc):
                                ok = True
                    elif tt.endswith(".modified_ops"):
                        # tracking predicate wrapper passed to the re-routing call
                        base = tt.rsplit(".", 1)[0]
                        if any(unparse(a) == base for a in c.args) and cfg.node_of(s) in cfg.reachable(nc):
                            ok = True
                    # the conditional set must lie on every path after the call where the condition holds (if directly follows)
                if ok:
                    r1.ok(inst, f"{f.loc} {nm}: flag set iff the list of re-routed users is non-empty")
                    continue
            r1.fail(inst, Finding("C11.R1", f.fq, f"flag-missing:{call_attr(c)}", f"`{unparse(c)[:80]}` mutates the IR but a path through it never sets has_done_action: the driver does not see the change (no revisit, `rewrite_region` may return False)", f"{f.module.relpath}:{c.lineno}"))
    if n_mut < 10:
        raise AnalysisError(f"only {n_mut} mutating rewriter methods recognised (floor 10)")

    # ---- R2: notification presence and order
    r2 = rep.rule("C11.R2", "each mutation kind calls its listener hook in the order the walker needs (removal before erase, replacement before re-routing, insertion after insert, modification for every re-routed user)", floor=7)

    def order(fq_mod: str, qual: str, first: str, then: str, every_path: bool = True) -> None:
        f = idx.func(fq_mod, qual)
        cfg = CFG(f.node)
        a = [c for c in calls_in(f.node) if unparse(c.func).endswith(first)]
        b = [c for c in calls_in(f.node) if unparse(c.func).endswith(then)]
        inst = f"{f.fq}:{first}<{then}"
        if not a or not b:
            r2.fail(inst, Finding("C11.R2", f.fq, f"missing:{first if not a else then}", f"`{first if not a else then}` is no longer called in {qual}", f.loc))
            return
        an = {cfg.node_of(x) for x in a}
        # a call made once per element of a loop: the loop head stands for it (zero iterations = nothing to do)
        for w in walk_local(f.node):
            if isinstance(w, ast.For) and w.body and any(any(y is x for y in ast.walk(w.body[0])) for x in a):
                an.add(cfg.node_of(w))
        bad = any(cfg.path_avoiding(cfg.entry, cfg.node_of(x), lambda n: n.id in an, follow_exc=False) is not None for x in b)
        if bad:
            r2.fail(inst, Finding("C11.R2", f.fq, f"order:{first}<{then}", f"a path reaches `{then}` without `{first}` having been called first", f.loc))
        else:
            r2.ok(inst, f"{f.loc} {first} precedes {then} on every path")

    order(PR, "PatternRewriter.erase", "self.handle_operation_removal", "Rewriter.erase_op")
    order(PR, "PatternRewriter.replace", "self.handle_operation_replacement", "self.replace_all_uses_with")
    order(PR, "PatternRewriter.replace", "self.insert", "self.handle_operation_replacement")
    order(PR, "PatternRewriter.replace", "self.replace_all_uses_with", "self.erase")
    order(BUILDER, "Builder.insert", "Rewriter.insert_op", "self.handle_operation_insertion")
    order(BUILDER, "Builder.create_block", "Rewriter.insert_block", "self.handle_block_creation")
    f = idx.func(PR, "PatternRewriter.notify_op_modified")
    body = [unparse(s_) for s_ in f.node.body if not (isinstance(s_, ast.Expr) and isinstance(s_.value, ast.Constant))]
    opn_ = f.node.args.args[1].arg
    if f"self.handle_operation_modification({opn_})" in body and "self.has_done_action = True" in body:
        r2.ok(f.fq, f"{f.loc} sets the flag and notifies")
    else:
        r2.fail(f.fq, Finding("C11.R2", f.fq, "notify-op-modified", "notify_op_modified must set the flag and call handle_operation_modification(op)", f.loc))
    # insertion notified for every inserted op
    f = idx.func(BUILDER, "Builder.insert")
    loops = [w for w in walk_local(f.node) if isinstance(w, ast.For) and any(unparse(c.func) == "self.handle_operation_insertion" for c in calls_in(w))]
    ok = False
    good_heads = set()
    cfg = CFG(f.node)
    for w in loops:
        defs = [v for _, v in reaching_defs(cfg, unparse(w.iter), cfg.node_of(w)) if v is not None] if isinstance(w.iter, ast.Name) else []
        call = [c for c in calls_in(w) if unparse(c.func) == "self.handle_operation_insertion"][0]
        facts = guard_facts(w, call)
        opn = f.node.args.args[1].arg
        whole = {f"({opn},) if isinstance({opn}, Operation) else {opn}", f"[{opn}] if isinstance({opn}, Operation) else {opn}", f"{opn} if not isinstance({opn}, Operation) else ({opn},)"}
        parts = {f"({opn},)", f"[{opn}]", opn}
        dtexts = {unparse(d_) for d_ in defs}
        iter_ok = bool(defs) and (dtexts <= whole or (dtexts <= parts and opn in dtexts and len(dtexts) == 2))
        if iter_ok and unparse(call.args[0]) == unparse(w.target) and not facts:
            good_heads.add(cfg.node_of(w))
    ins_calls = [c for c in calls_in(f.node) if unparse(c.func).endswith("Rewriter.insert_op")]
    if good_heads and ins_calls:
        # every way out of the function after the operations were inserted passes such a notification loop
        ok = all(cfg.path_avoiding(cfg.node_of(c), cfg.exit, lambda n: n.id in good_heads, follow_exc=False) is None for c in ins_calls)
    if ok:
        r2.ok(f.fq + ":each", f"{f.loc} handle_operation_insertion(op_) for every inserted op")
    elif good_heads and ins_calls:
        pth_ = next(p_ for p_ in (cfg.path_avoiding(cfg.node_of(c), cfg.exit, lambda n: n.id in good_heads, follow_exc=False) for c in ins_calls) if p_ is not None)
        r2.fail(f.fq + ":each", Finding("C11.R2", f.fq, "insertion-unnotified-path", "a path leaves Builder.insert after the operations were inserted without passing the loop that reports each of them to the listeners (the walker does not learn about the new ops: they are never visited): " + " -> ".join(cfg.describe(pth_)[-4:]), f.loc))
    else:
        r2.fail(f.fq + ":each", Finding("C11.R2", f.fq, "insertion-not-each", "handle_operation_insertion is not called unconditionally for every inserted operation", f.loc))
    # modification notified for every re-routed user
    for qual, lst in (("PatternRewriter.replace_all_uses_with", "modified_ops"), ("PatternRewriter.replace_uses_with_if", "tracking.modified_ops")):
        f = idx.func(PR, qual)
        cfg = CFG(f.node)
        fromv = f.node.args.args[1].arg

        def _is_modified_users(it: ast.expr, w: ast.For) -> bool:
            """the iterable holds the users of `from_value` captured before the re-routing, or the users the tracking
            predicate recorded"""
            t_ = resolved_text(cfg, it, cfg.node_of(w))
            try:
                e_ = ast.parse(t_, mode="eval").body
            except SyntaxError:
                return False
            if alpha_same(e_, f"[use.operation for use in {fromv}.uses]") or alpha_same(e_, f"list(use.operation for use in {fromv}.uses)") or alpha_same(e_, f"tuple(use.operation for use in {fromv}.uses)"):
                return True
            # the same collection built by an explicit loop
            try:
                d_ = describe_set(f.node, cfg, it, cfg.node_of(w))
                if not d_.unknown and not d_.bases and len(d_.adds) == 1 and len(d_.adds[0].iters) == 1 and not [t_ for t_, _ in d_.adds[0].facts if re.search(rf"\b{re.escape(d_.adds[0].iters[0][0])}\b", t_)] and d_.adds[0].iters[0][1] == f"{fromv}.uses" and d_.adds[0].elem == f"{d_.adds[0].iters[0][0]}.operation":
                    return True
            except AnalysisError:
                pass
            m_ = re.fullmatch(r"(\w+)\.modified_ops", unparse(it))
            if m_:
                trk = m_.group(1)
                made = any(isinstance(s_, ast.Assign) and len(s_.targets) == 1 and unparse(s_.targets[0]) == trk and isinstance(s_.value, ast.Call) and unparse(s_.value.func) == "_TrackingPredicate" for s_ in walk_local(f.node))
                used = any(call_attr(c_) == "replace_uses_with_if" and unparse(c_.func.value) == fromv and len(c_.args) == 2 and unparse(c_.args[1]) == trk for c_ in calls_in(f.node))  # type: ignore[attr-defined]
                return made and used
            return False

        loops = [w for w in walk_local(f.node) if isinstance(w, ast.For) and _is_modified_users(w.iter, w) and any(unparse(c.func) == "self.handle_operation_modification" and unparse(c.args[0]) == unparse(w.target) for c in calls_in(w))]
        inst = f.fq + ":each"
        if not loops:
            r2.fail(inst, Finding("C11.R2", f.fq, "modification-not-each", f"users whose operand was re-routed ({lst}) are not all passed to handle_operation_modification", f.loc))
            continue
        head = cfg.node_of(loops[0])
        muts = [c for c in calls_in(f.node) if isinstance(c.func, ast.Attribute) and c.func.attr in ("replace_all_uses_with", "replace_uses_with_if", "erase") and _self_call(c) is None]
        from ..astutil import conjuncts as _cj11

        it_txt = unparse(loops[0].iter)

        def _not_known_empty(a_: int, b_: int, lab) -> bool:
            """an edge on which the collection of modified users is known to be empty is not a way of skipping them"""
            e_ = cfg.nodes[a_].ast
            if e_ is None or lab not in ("T", "F") or not isinstance(e_, ast.expr):
                return True
            for atom, truth in _cj11(e_, lab == "T"):
                t_ = unparse(atom)
                if (t_ == it_txt and not truth) or (t_ in (f"len({it_txt}) == 0", f"not {it_txt}") and truth) or (t_ in (f"len({it_txt}) > 0", f"len({it_txt}) != 0") and not truth):
                    return False
            return True

        bad = any(cfg.path_avoiding(cfg.node_of(c), cfg.exit, lambda n: n.id == head, follow_exc=False, edge_ok=_not_known_empty) is not None for c in muts)
        if bad:
            r2.fail(inst, Finding("C11.R2", f.fq, "modification-skipped", "a path re-routes uses and returns without notifying the modified users", f.loc))
        else:
            r2.ok(inst, f"{f.loc} every re-routed user notified after the re-routing")
    f = idx.func(PR, "PatternRewriter.replace_value_with_new_type")
    cfg = CFG(f.node)
    rw = [c for c in calls_in(f.node) if unparse(c.func) == "Rewriter.replace_value_with_new_type"]
    notes = [c for c in calls_in(f.node) if unparse(c.func) == "self.handle_operation_modification"]
    valp = f.node.args.args[1].arg
    argtxt = {resolved_text(cfg, c.args[0], cfg.node_of(c)) for c in notes}
    # result: its defining op; block argument: the op that owns the block (a local bound to <val>.block.parent_op())
    owner_ok = f"{valp}.op" in argtxt and any(re.fullmatch(rf"{re.escape(valp)}\.(block|owner)\.parent_op\(\)|{re.escape(valp)}\.(block|owner)\.parent\.parent", t_) or (isinstance(c.args[0], ast.Name) and any(re.fullmatch(rf"\(?(\w+ := )?{re.escape(valp)}\.(block|owner)\.parent_op\(\)\)?", unparse(v_)) for v_ in [n_.value for n_ in ast.walk(f.node) if isinstance(n_, ast.NamedExpr) and n_.target.id == c.args[0].id])) for c in notes for t_ in [resolved_text(cfg, c.args[0], cfg.node_of(c))])
    if rw and owner_ok and all(cfg.node_of(rw[0]) in cfg.reachable(cfg.node_of(c)) for c in notes):
        r2.ok(f.fq, f"{f.loc} owner op notified (result: val.op; block argument: parent op) before the value is replaced")
    else:
        r2.fail(f.fq, Finding("C11.R2", f.fq, "retype-notify", "replace_value_with_new_type must notify the owner operation (val.op / parent op of the block) before replacing the value", f.loc))

    # ---- R3: handler lists: dispatch method, forwarding, walker wiring
    r3 = rep.rule("C11.R3", "every handler list has a dispatch method, is forwarded by extend_from_listener and is wired by the walker", floor=5)
    bl = idx.cls(BUILDER, "BuilderListener")
    pl = idx.cls(PR, "PatternRewriterListener")
    fields = [(bl, n) for n, _, _ in bl.ann_fields() if n.endswith("_handler")] + [(pl, n) for n, _, _ in pl.ann_fields() if n.endswith("_handler")]
    if len(fields) < 5:
        raise AnalysisError(f"only {len(fields)} handler lists found")
    wiring = idx.func(PR, "PatternRewriteWalker._get_rewriter_listener")
    ctor = [c for c in calls_in(wiring.node) if call_attr(c) == "PatternRewriterListener"]
    if len(ctor) != 1:
        raise AnalysisError(f"{wiring.fq}: PatternRewriterListener(...) construction not found")
    kws = {k.arg: k.value for k in ctor[0].keywords if k.arg is not None}
    wcfg = CFG(wiring.node)
    for k in ctor[0].keywords:
        if k.arg is None:  # **table: a literal dict of handler lists keyed by field name
            d_ = k.value
            if isinstance(d_, ast.Name):
                ds_ = [v_ for _, v_ in reaching_defs(wcfg, d_.id, wcfg.node_of(ctor[0])) if v_ is not None]
                d_ = ds_[0] if len(ds_) == 1 else d_
            if isinstance(d_, ast.Dict) and all(isinstance(kk, ast.Constant) and isinstance(kk.value, str) for kk in d_.keys):
                kws.update({kk.value: vv for kk, vv in zip(d_.keys, d_.values)})  # type: ignore[union-attr]
            else:
                raise AnalysisError(f"{wiring.fq}: keyword table `**{unparse(k.value)}` of the listener construction not understood")
    # lists filled after the construction: `<listener>.<field>.extend(xs)` / `.append(x)` / `+= xs` on the constructed object
    filled: dict[str, list[str]] = {}
    wn = inline_chain_aliases(wiring.node)
    lname = None
    for st in walk_local(wn):
        if isinstance(st, (ast.Assign, ast.AnnAssign)) and isinstance(st.value, ast.Call) and call_attr(st.value) == "PatternRewriterListener":
            tg = st.targets[0] if isinstance(st, ast.Assign) else st.target
            if isinstance(tg, ast.Name):
                lname = tg.id
    if lname is not None:
        for n in walk_local(wn):
            if isinstance(n, ast.Call) and isinstance(n.func, ast.Attribute) and n.func.attr in ("extend", "append") and len(n.args) == 1:
                m = re.fullmatch(rf"{re.escape(lname)}\.(\w+)", unparse(n.func.value))
                if m:
                    filled.setdefault(m.group(1), []).append(("*" if n.func.attr == "extend" else "") + unparse(n.args[0]))
            elif isinstance(n, ast.AugAssign) and isinstance(n.op, ast.Add):
                m = re.fullmatch(rf"{re.escape(lname)}\.(\w+)", unparse(n.target))
                if m:
                    filled.setdefault(m.group(1), []).append("*" + unparse(n.value))
    for cls, fld in fields:
        inst = f"{cls.name}.{fld}"
        problems = []
        stem = fld[: -len("_handler")]
        disp = cls.method(f"handle_{stem}")
        if disp is None or not any(isinstance(w, ast.For) and unparse(w.iter) == f"self.{fld}" and any(isinstance(c.func, ast.Name) and c.func.id == unparse(w.target) for c in calls_in(w)) for w in walk_local(disp.node)):
            problems.append(("no-dispatch", f"no handle_{stem} method calling every callback of {fld}"))
        ext = cls.method("extend_from_listener")
        ecfg = CFG(ext.node) if ext is not None else None
        if ext is None or not any(call_attr(c) == "extend" and c.args and resolved_text(ecfg, c.func.value, ecfg.node_of(c)) == f"self.{fld}" and resolved_text(ecfg, c.args[0], ecfg.node_of(c)) == f"listener.{fld}" for c in calls_in(ext.node) if isinstance(c.func, ast.Attribute)):
            problems.append(("not-forwarded", f"extend_from_listener does not forward {fld}"))
        if cls is pl and ext is not None and not any(unparse(c.func) == "super().extend_from_listener" for c in calls_in(ext.node)):
            problems.append(("no-super", "PatternRewriterListener.extend_from_listener does not call the base class forwarder"))
        v = kws.get(fld)
        t = None
        if v is not None:
            t = resolved_text(wcfg, v, wcfg.node_of(ctor[0]))
        elif fld in filled:
            t = " + ".join(filled[fld])
        if t is None:
            problems.append(("not-wired", f"the walker's listener does not receive {fld}"))
        else:
            if f"self.listener.{fld}" not in t:
                problems.append(("user-listener-dropped", f"callbacks of the user-supplied listener for {fld} are not included"))
            if fld.startswith("operation_") and f"self._handle_{stem}" not in t:
                problems.append(("walker-handler-missing", f"the walker's own _handle_{stem} is not registered: the worklist is not updated on {stem.replace('_', ' ')}"))
        if problems:
            for k, m in problems:
                r3.fail(inst, Finding("C11.R3", f"{cls.fq}.{fld}", k, m, cls.loc))
        else:
            r3.ok(inst, f"{cls.loc} {fld}: dispatch + forward + walker wiring")

    # ---- R4: removal handler purges the op and all nested ops from the worklist
    r4 = rep.rule("C11.R4", "the walker's removal handler removes the erased operation and every nested operation from the worklist on every path", floor=1)
    f = idx.func(PR, "PatternRewriteWalker._handle_operation_removal")
    cfg = CFG(f.node)
    opn = f.node.args.args[1].arg
    good = set()
    for c in calls_in(f.node):
        if unparse(c.func) == "self._worklist.remove" and unparse(c.args[0]) == opn:
            good.add(cfg.node_of(c))
    for w in walk_local(f.node):
        if isinstance(w, ast.For) and unparse(w.iter) == f"{opn}.walk()" and any(unparse(c.func) == "self._worklist.remove" and unparse(c.args[0]) == unparse(w.target) for c in calls_in(w)):
            good.add(cfg.node_of(w))
    nested_ok = any(isinstance(w, ast.For) and unparse(w.iter) == f"{opn}.walk()" for w in walk_local(f.node))
    p = cfg.path_avoiding(cfg.entry, cfg.exit, lambda n: n.id in good, follow_exc=False)
    if p is not None or not good:
        r4.fail(f.fq, Finding("C11.R4", f.fq, "op-stays-in-worklist", "a path leaves the erased operation itself in the worklist (patterns would later be invoked on an erased op): " + " -> ".join(cfg.describe(p or [])[-4:]), f.loc))
    elif not nested_ok:
        r4.fail(f.fq, Finding("C11.R4", f.fq, "nested-stay-in-worklist", "operations nested in the erased operation are not removed from the worklist", f.loc))
    else:
        # the non-walk branch may only be taken when the op has no regions
        plain = [c for c in calls_in(f.node) if unparse(c.func) == "self._worklist.remove" and unparse(c.args[0]) == opn]
        bad = False
        for c in plain:
            facts = text_facts(f.node, c)
            if not any(t == f"{opn}.regions" and pol is False for t, pol in facts) and not all(cfg.path_avoiding(cfg.entry, cfg.node_of(c), lambda n: n.kind == "for" and f"{opn}.walk()" in n.text()) is None for _ in [0]):
                bad = True
        if bad:
            r4.fail(f.fq, Finding("C11.R4", f.fq, "nested-stay-in-worklist", f"`self._worklist.remove({opn})` alone is used for an operation that may have regions", f.loc))
        else:
            r4.ok(f.fq, f"{f.loc} op.walk() purge for region ops, remove(op) otherwise")

    # ---- R4b: nothing reachable from the erased operation is (re-)queued while it is being purged
    r4b = rep.rule("C11.R4", "while the erased operation and its nested operations are being removed from the worklist, no operation reached through a nested operation is pushed (its defining op may be nested in the erased op too and already purged)", floor=1)
    wcls = idx.cls(PR, "PatternRewriteWalker")
    wmeths = [m_ for ms in wcls.methods.values() for m_ in (ms if isinstance(ms, list) else [ms])]
    pushers = {m.name for m in wmeths if any(unparse(c.func) == "self._worklist.push" for c in calls_in(m.node))}
    for _ in range(3):
        pushers |= {m.name for m in wmeths if any(isinstance(c.func, ast.Attribute) and unparse(c.func.value) == "self" and c.func.attr in pushers for c in calls_in(m.node))}
    purge_loops = [w for w in walk_local(f.as_raw().node) if isinstance(w, ast.For) and unparse(w.iter) == f"{opn}.walk()" and any(unparse(c.func) == "self._worklist.remove" for c in calls_in(w))]
    bad_push = []
    for w in purge_loops:
        tgt = unparse(w.target)
        for c in calls_in(w):
            is_push = unparse(c.func) == "self._worklist.push" or (isinstance(c.func, ast.Attribute) and unparse(c.func.value) == "self" and c.func.attr in pushers)
            if is_push and any(isinstance(x, ast.Name) and x.id == tgt for a_ in c.args for x in ast.walk(a_)):
                bad_push.append(c)
    if bad_push:
        c = bad_push[0]
        r4b.fail(f.fq + ":purge", Finding("C11.R4", f.fq, "push-during-purge", f"`{unparse(c)}` queues operations reached from a nested operation inside the loop that purges `{opn}.walk()`: the walk is pre-order, so the single-use definition of a nested operand has already been removed when its user is visited and is pushed back - an erased, parent-less operation stays in the worklist and is handed to the patterns", f"{f.module.relpath}:{c.lineno}"))
    else:
        r4b.ok(f.fq + ":purge", f"{f.loc} the purge loop queues nothing" if purge_loops else f"{f.loc} no loop over {opn}.walk() (purge completeness is decided by the rule above)")

    # ---- R5: driver loops
    r5 = rep.rule("C11.R5", "the worklist loop resets and accumulates the action flag around every match; rewrite_region re-walks while any walk or post-walk step changed the IR", floor=3)
    f = idx.func(PR, "PatternRewriteWalker._process_worklist")
    cfg = CFG(f.node)
    match = [c for c in calls_in(f.node) if unparse(c.func) == "self.pattern.match_and_rewrite"]
    if len(match) != 1 or len(match[0].args) != 2:
        raise AnalysisError(f"{f.fq}: match_and_rewrite call not found")
    opv, rwv = unparse(match[0].args[0]), unparse(match[0].args[1])  # the matched operation and the rewriter, whatever they are called
    acc = [s for s in walk_local(f.node) if isinstance(s, ast.AugAssign) and isinstance(s.op, ast.BitOr) and unparse(s.value) == f"{rwv}.has_done_action"]
    reset = [s for s in walk_local(f.node) if isinstance(s, ast.Assign) and unparse(s) == f"{rwv}.has_done_action = False"]
    nm = cfg.node_of(match[0])
    accn = {cfg.node_of(s) for s in acc}
    resn = {cfg.node_of(s) for s in reset}
    bad = []
    if not acc or cfg.path_avoiding(nm, cfg.exit, lambda n: n.id in accn, follow_exc=False) is not None:
        bad.append(("flag-not-accumulated", "a path from a match to the return does not OR rewriter.has_done_action into the result"))
    if acc and cfg.path_avoiding(nm, nm, lambda n: n.id in accn, follow_exc=False) is not None:
        bad.append(("flag-not-accumulated", "the next match can start before the flag of the previous one was accumulated"))
    if not reset or cfg.path_avoiding(cfg.entry, nm, lambda n: n.id in resn, follow_exc=False) is not None or cfg.path_avoiding(nm, nm, lambda n: n.id in resn, follow_exc=False) is not None:
        bad.append(("flag-not-reset", "the flag is not reset before every match (a stale True stops GreedyRewritePatternApplier early)"))
    rets = [n for n in walk_local(f.node) if isinstance(n, ast.Return)]
    accvar = unparse(acc[0].target) if acc else "?"
    if any(unparse(rt.value) != accvar for rt in rets if rt.value is not None):
        bad.append(("wrong-result", "the accumulated flag is not what is returned"))
    (r5.ok(f.fq, f"{f.loc} reset; match; {accvar} |= flag") if not bad else [r5.fail(f.fq, Finding("C11.R5", f.fq, k, m, f.loc)) for k, m in bad])
    # ops are taken from the worklist only
    pops = [c for c in calls_in(f.node) if unparse(c.func) == "self._worklist.pop"]
    opdefs = {unparse(v) for _, v in reaching_defs(cfg, opv, nm) if v is not None}
    if opdefs == {"self._worklist.pop()"} and pops:
        r5.ok(f.fq + ":source", f"{f.loc} matched op always comes from self._worklist.pop()")
    else:
        r5.fail(f.fq + ":source", Finding("C11.R5", f.fq, "op-source", f"the matched operation comes from {sorted(opdefs)}, not only from the worklist (erased ops are removed from the worklist, not from other sources)", f.loc))

    f = idx.func(PR, "PatternRewriteWalker.rewrite_region")
    cfg = CFG(f.node)
    loops = [w for w in walk_local(f.node) if isinstance(w, ast.While)]
    bad = []
    if len(loops) != 1:
        raise AnalysisError(f"{f.fq}: expected one fixpoint loop")
    w = loops[0]
    # loop control variables: names in the continuation condition (while test, or the `if ...: break/return`
    # exits of a `while True` loop), apart from configuration read through self
    ctrl: set[str] = set()
    exit_tests: set[int] = set()
    if not (isinstance(w.test, ast.Constant) and w.test.value is True):
        ctrl |= {x.id for x in ast.walk(w.test) if isinstance(x, ast.Name) and x.id != "self"}
        exit_tests.add(cfg.node_of(w.test))
    for n in walk_local(w):
        if isinstance(n, ast.If) and n.body and isinstance(n.body[-1], (ast.Break, ast.Return)):
            ctrl |= {x.id for x in ast.walk(n.test) if isinstance(x, ast.Name) and x.id != "self"}
            exit_tests.add(cfg.node_of(n.test))
    if not ctrl:
        raise AnalysisError(f"{f.fq}: loop exit condition not recognised")
    v = sorted(ctrl)[0]
    # every process_worklist / post_walk result inside or before the loop must flow into v at the test:
    srcs = [c for c in calls_in(f.node) if unparse(c.func) in ("self._process_worklist", "self.post_walk_func")]
    # copy graph between locals: a = b, a |= b, a = a or b  (b flows to a), closed transitively
    flows: dict[str, set[str]] = {}
    for s_ in walk_local(f.node):
        if isinstance(s_, ast.Assign) and len(s_.targets) == 1 and isinstance(s_.targets[0], ast.Name):
            for x_ in ast.walk(s_.value):
                if isinstance(x_, ast.Name) and not any(isinstance(y_, ast.Call) for y_ in ast.walk(s_.value)):
                    flows.setdefault(x_.id, set()).add(s_.targets[0].id)
        elif isinstance(s_, ast.AugAssign) and isinstance(s_.target, ast.Name) and isinstance(s_.value, ast.Name):
            flows.setdefault(s_.value.id, set()).add(s_.target.id)
    changed_ = True
    while changed_:
        changed_ = False
        for a_, bs_ in list(flows.items()):
            for b_ in list(bs_):
                extra = flows.get(b_, set()) - bs_
                if extra:
                    bs_ |= extra
                    changed_ = True
    sources: set[str] = set()
    for c in srcs:
        st = None
        for s in walk_local(f.node):
            if isinstance(s, (ast.Assign, ast.AugAssign)) and any(x is c for x in ast.walk(s)):
                st = s
        nm_ = unparse(c.func).split(".")[-1]
        if st is None:
            bad.append((f"result-dropped:{nm_}", f"the result of `{unparse(c.func)}(...)` is discarded"))
            continue
        tgt = unparse(st.targets[0] if isinstance(st, ast.Assign) else st.target)
        sources.add(tgt)
        if tgt not in ctrl and flows.get(tgt, set()) & ctrl:
            # the result reaches the loop condition through plain copies (`sweep_changed = changed`)
            continue
        if tgt not in ctrl:
            bad.append((f"result-not-in-loop-condition:{nm_}", f"the result of `{unparse(c.func)}(...)` is stored in `{tgt}`, which does not control the re-walk loop ({sorted(ctrl)}): a change made by this step does not trigger another walk"))
            continue
        v = tgt
        if isinstance(st, ast.Assign) and nm_ == "post_walk_func":
            bad.append((f"result-overwrites:{nm_}", "post-walk result overwrites (instead of OR-ing into) the walk result"))
        # no plain reassignment of v between this store and the next test
        ns = cfg.node_of(st)
        killers = {cfg.node_of(s) for s in walk_local(f.node) if isinstance(s, ast.Assign) and unparse(s.targets[0]) == v and s is not st}
        for t in exit_tests:
            p = cfg.path_avoiding(ns, t, lambda n: n.id in exit_tests and n.id != t, follow_exc=False)
            if p is not None and any(x in killers for x in p[1:-1]):
                bad.append((f"result-killed:{nm_}", f"`{v}` is overwritten between `{unparse(c.func)}` and the loop test"))
    # inside the loop: populate + process
    body_calls = {unparse(c.func) for c in calls_in(w)}
    if not {"self._populate_worklist", "self._process_worklist"} <= body_calls:
        bad.append(("loop-body", "the re-walk loop does not repopulate and process the worklist"))
    # recursion switch
    if not any(isinstance(n, ast.If) and "self.apply_recursively" in unparse(n.test) and isinstance(n.body[-1], (ast.Return, ast.Break)) for n in walk_local(f.node)) and "apply_recursively" not in unparse(w.test):
        bad.append(("recursion-switch", "apply_recursively no longer controls the re-walk"))
    # returned value is True whenever anything changed
    rets = [n for n in walk_local(f.node) if isinstance(n, ast.Return) and n.value is not None]
    for rt in rets:
        if isinstance(rt.value, ast.Name) and rt.value.id not in ctrl:
            if rt.value.id in sources or any(rt.value.id in flows.get(sv, set()) for sv in sources):
                continue  # a copy of a walk result
            defs = [unparse(x) for _, x in reaching_defs(cfg, rt.value.id, cfg.node_of(rt)) if x is not None]
            if not all(any(cv in d for cv in ctrl) or d == "False" for d in defs) and not any(isinstance(s_, ast.AugAssign) and unparse(s_.target) == rt.value.id and any(cv in unparse(s_.value) for cv in ctrl) for s_ in walk_local(f.node)):
                bad.append(("result", f"returned `{rt.value.id}` is not derived from the walk results {sorted(ctrl)}"))
    # change accumulation (relational must-analysis, xsa/accum.py): at every `return x`, x >= every step result so far
    from ..accum import analyse as _accum

    is_src = lambda e_: isinstance(e_, ast.Call) and unparse(e_.func) in ("self._process_worklist", "self.post_walk_func")
    IN_, names_ = _accum(f.node, cfg, is_src)
    for rt in rets:
        st_ = IN_.get(cfg.node_of(rt))
        if st_ is None:
            continue
        if isinstance(rt.value, ast.Name) and rt.value.id in names_:
            if not st_.cover[rt.value.id]:
                bad.append((f"result-misses-change:{rt.value.id}", f"`return {rt.value.id}` (line {rt.lineno}) can be reached with a walk or post-walk step having reported a change that `{rt.value.id}` does not contain (the flag is accumulated before the last step that can change the IR is OR-ed in): rewrite_region answers False for IR it changed"))
        elif isinstance(rt.value, ast.Constant) and rt.value.value is False and not st_.Z:
            bad.append(("result-misses-change:False", f"`return False` (line {rt.lineno}) after a step that may have changed the IR"))
    (r5.ok(f.fq, f"{f.loc} while {v}: populate; {v} = process; {v} |= post_walk") if not bad else [r5.fail(f.fq, Finding("C11.R5", f.fq, k, m, f.loc)) for k, m in bad])

    # ---- R6: applier stops after the first pattern that acted; dead ops go through rewriter.erase
    r6 = rep.rule("C11.R6", "GreedyRewritePatternApplier returns after the first pattern that set the flag and erases / replaces only through the rewriter", floor=2)
    f = idx.func(PR, "GreedyRewritePatternApplier.match_and_rewrite")
    cfg = CFG(f.node)
    loops = [w for w in walk_local(f.node) if isinstance(w, ast.For) and unparse(w.iter) == "self.rewrite_patterns"]
    ok = False
    if loops:
        from ..astutil import conjuncts as _cj

        head = cfg.node_of(loops[0])
        var = unparse(loops[0].target)
        mcalls = [c for c in calls_in(loops[0]) if call_attr(c) == "match_and_rewrite" and isinstance(c.func, ast.Attribute) and unparse(c.func.value) == var]

        def no_action(n_: int, m_: int, lab) -> bool:
            a_ = cfg.nodes[n_].ast
            if a_ is None or lab not in ("T", "F") or not isinstance(a_, ast.expr):
                return False
            return any(unparse(t_) == "rewriter.has_done_action" and not pol for t_, pol in _cj(a_, lab == "T"))

        # after a pattern ran, the next pattern (loop head) is reached only along an edge on which the flag is False
        ok = bool(mcalls) and all(cfg.path_avoiding(cfg.node_of(c), head, lambda n_: False, follow_exc=False, edge_ok=lambda n_, m_, lab: not no_action(n_, m_, lab)) is None for c in mcalls)
    (r6.ok(f.fq + ":first-match", f"{f.loc} return after the first pattern that acted") if ok else r6.fail(f.fq + ":first-match", Finding("C11.R6", f.fq, "first-match", "the applier does not return right after the first pattern that set has_done_action (a second pattern could run on an erased/replaced op)", f.loc)))
    direct = [c for c in calls_in(f.node) if isinstance(c.func, ast.Attribute) and c.func.attr in VALUE_MUTATORS and unparse(c.func.value) not in ("rewriter",)]
    if direct:
        r6.fail(f.fq + ":via-rewriter", Finding("C11.R6", f.fq, "bypass-rewriter", f"`{unparse(direct[0])}` mutates IR without the rewriter (no flag, no notification)", f.loc))
    else:
        r6.ok(f.fq + ":via-rewriter", f"{f.loc} erase/replace only through rewriter.*")

    rep.extra["methods_visible_on_PatternRewriter"] = len(visible)
    return (
        "Call-graph (MRO-aware dispatch on self/super) + CFG must-pass-through rules over xdsl/pattern_rewriter.py and "
        "xdsl/builder.py: action flag on every mutating path, listener hooks present and ordered, handler lists dispatched / "
        "forwarded / wired, erased ops purged from the worklist, flag reset and accumulated around every match, the re-walk "
        "loop controlled by every step that can change the IR. Termination and fixpoint for arbitrary pattern sets are not decided."
    )
