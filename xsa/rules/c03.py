"""C03 — structural equivalence: field coverage, type-checked pairing, total lookups, pre-registration."""

from __future__ import annotations

import ast
import re

from ..astutil import attr_chain, call_attr, calls_in, guard_facts, unparse, walk_local
from ..cfg import CFG
from ..dataflow import resolved_text
from ..report import Finding, Report
from ..srcindex import AnalysisError, Index

CORE = "xdsl/ir/core.py"
CSE = "xdsl/transforms/common_subexpression_elimination.py"

# semantic fields listed by the property; (kind) seq = compared element-wise + length, val = compared directly
OP_FIELDS = {
    "name": "val",
    "operands": "seq",
    "results": "seq-types",
    "attributes": "val",
    "properties": "val",
    "successors": "seq",
    "regions": "seq",
}
BLOCK_FIELDS = {"args": "seq-types", "ops": "seq"}
REGION_FIELDS = {"blocks": "seq"}


def _is_false(e: ast.AST | None) -> bool:
    return isinstance(e, ast.Constant) and e.value is False


def _mentions(e: ast.AST, chain: str) -> bool:
    return any(attr_chain(x) == chain for x in ast.walk(e) if isinstance(x, ast.Attribute))


def _zip_pairs(node: ast.AST, R=None):
    """Yield (zip_call, [arg texts], target_names, owner) for comprehensions / for loops over zip(...), also when the
    zip was materialised first (`pairs = tuple(zip(a, b)); for x, y in pairs`)."""
    for n in ast.walk(node):
        gens = []
        if isinstance(n, (ast.GeneratorExp, ast.ListComp, ast.SetComp)):
            gens = [(g.target, g.iter, n) for g in n.generators]
        elif isinstance(n, ast.For):
            gens = [(n.target, n.iter, n)]
        for tgt, it, owner in gens:
            if R is not None and isinstance(it, ast.Name):
                try:
                    e_ = ast.parse(R(it), mode="eval").body
                    while isinstance(e_, ast.Call) and isinstance(e_.func, ast.Name) and e_.func.id in ("tuple", "list") and len(e_.args) == 1:
                        e_ = e_.args[0]
                    if isinstance(e_, ast.Call) and call_attr(e_) == "zip":
                        it = e_
                except SyntaxError:
                    pass
            if isinstance(it, ast.Call) and call_attr(it) == "zip" and len(it.args) == 2 and isinstance(tgt, ast.Tuple) and len(tgt.elts) == 2:
                yield it, [unparse(a) for a in it.args], [unparse(e) for e in tgt.elts], owner


def _resolver(fn: ast.FunctionDef, cfg: CFG):
    """R(expr): text of expr with single-definition locals replaced by what they stand for (so that
    `mine = self.args; ... len(mine)` reads `len(self.args)`), evaluated at the statement containing expr."""
    from ..astutil import parent_map
    from ..dataflow import resolved_text

    pm = parent_map(fn)

    def R(e: ast.AST) -> str:
        st = e
        while not isinstance(st, ast.stmt) and id(st) in pm:
            st = pm[id(st)]
        try:
            at = cfg.node_of(st)
        except AnalysisError:
            return unparse(e)
        try:
            return resolved_text(cfg, e, at)
        except Exception:
            return unparse(e)

    return R


def _prop_tuples(cls) -> dict[str, list[str]]:
    """property name -> texts of the elements of the tuple it returns (locals resolved): `self._key == other._key`
    then compares every listed element."""
    out: dict[str, list[str]] = {}
    if cls is None:
        return out
    for nm, defs in cls.methods.items():
        for d in defs:
            if not any(x.endswith("property") for x in d.decorator_names()):
                continue
            g = d.as_raw().node
            rets = [x for x in walk_local(g) if isinstance(x, ast.Return) and x.value is not None]
            if len(rets) != 1 or not isinstance(rets[0].value, ast.Tuple):
                continue
            c_ = CFG(g)
            out[nm] = [resolved_text(c_, e_, c_.node_of(rets[0])) for e_ in rets[0].value.elts]
    return out


def _field_evidence(fn: ast.FunctionDef, field: str, kind: str, cfg: CFG | None = None, s: str | None = None, o: str | None = None, props: dict[str, list[str]] | None = None):
    """Returns (len_nodes, elem_nodes, direct_nodes): AST nodes that constitute a discriminating
    comparison of `self.<field>` with `other.<field>`."""
    s, o = s or f"self.{field}", o or f"other.{field}"
    R = _resolver(fn, cfg) if cfg is not None else unparse
    len_nodes, elem_nodes, direct_nodes = [], [], []
    for n in walk_local(fn):
        if isinstance(n, ast.Compare) and len(n.ops) == 1 and isinstance(n.ops[0], (ast.Eq, ast.NotEq)):
            l, r = R(n.left), R(n.comparators[0])
            # index loop over both sequences: self.F[i].type != other.F[i].type  /  self.F[i] != other.F[i]
            import re as _re

            ml, mr = _re.fullmatch(r"(self|other)\." + field + r"\[(\w+)\](\.type)?", l), _re.fullmatch(r"(self|other)\." + field + r"\[(\w+)\](\.type)?", r)
            if ml and mr and ml.group(1) != mr.group(1) and ml.group(2) == mr.group(2) and ml.group(3) == mr.group(3) and ((kind == "seq-types") == bool(ml.group(3))):
                elem_nodes.append(n)
            if {l, r} == {s, o}:
                direct_nodes.append(n)
            for pn, elems in (props or {}).items():
                if {l, r} == {f"self.{pn}", f"other.{pn}"} and s in elems:
                    direct_nodes.append(n)
            if {l, r} == {f"len({s})", f"len({o})"}:
                len_nodes.append(n)
            if kind == "seq-types" and field == "results" and {l, r} == {"self.result_types", "other.result_types"}:
                direct_nodes.append(n)
    for z, args, names, owner in _zip_pairs(fn, R if cfg is not None else None):
        args = [R(a_) if any(a_ is x_ for x_ in ast.walk(fn)) else unparse(a_) for a_ in z.args[:2]]
        if set(args) != {s, o}:
            continue
        strict = any(k.arg == "strict" and isinstance(k.value, ast.Constant) and k.value.value is True for k in z.keywords)
        a, b = (names[0], names[1]) if args[0] == s else (names[1], names[0])
        body = owner.elt if not isinstance(owner, ast.For) else owner
        for n in ast.walk(body):
            if isinstance(n, ast.Compare) and len(n.ops) == 1 and isinstance(n.ops[0], (ast.Eq, ast.NotEq)):
                l, r = n.left, n.comparators[0]
                lt, rt = unparse(l), unparse(r)
                if kind == "seq-types":
                    if {lt, rt} == {f"{a}.type", f"{b}.type"}:
                        elem_nodes.append(n)
                else:
                    # context.get(a, a) == b   or a == b
                    def is_a(x):
                        return unparse(x) == a or (isinstance(x, ast.Call) and call_attr(x) == "get" and x.args and unparse(x.args[0]) == a)
                    if (is_a(l) and rt == b) or (is_a(r) and lt == b):
                        elem_nodes.append(n)
            if kind == "seq" and isinstance(n, ast.Call) and call_attr(n) == "is_structurally_equivalent" and isinstance(n.func, ast.Attribute):
                if unparse(n.func.value) == a and n.args and unparse(n.args[0]) == b:
                    elem_nodes.append(n)
        if strict and elem_nodes:
            len_nodes.append(z)
    return len_nodes, elem_nodes, direct_nodes


GATED: list[tuple[ast.AST, list[ast.AST]]] = []  # comparisons whose verdict only counts when a sibling condition holds


def _gates(fn: ast.FunctionDef, node: ast.AST) -> list[ast.AST]:
    """Sibling conditions that decide whether a mismatch found at `node` reaches the statement at all: in
    `if A and not all(x == y ...)` the mismatch makes the second conjunct true, but the test is only true when A is.
    Returns the siblings (A); a sibling that is false only when the compared sequences are empty is not a gate."""
    from ..astutil import parent_map

    pm = parent_map(fn)
    n, neg, in_all = node, False, False
    is_ne = isinstance(node, ast.Compare) and isinstance(node.ops[0], ast.NotEq)
    out: list[ast.AST] = []
    while id(n) in pm and not isinstance(pm[id(n)], ast.stmt):
        p = pm[id(n)]
        if isinstance(p, ast.UnaryOp) and isinstance(p.op, ast.Not):
            neg = not neg
        elif isinstance(p, ast.Call) and call_attr(p) == "all":
            in_all = True
        elif isinstance(p, (ast.GeneratorExp, ast.ListComp, ast.comprehension)):
            pass
        elif isinstance(p, ast.BoolOp):
            val = neg if isinstance(node, ast.Call) else ((is_ne and not in_all and not neg) or ((not is_ne or in_all) and neg))
            # at an `and`, a True operand leaves the decision to the siblings; at an `or`, a False operand does
            if isinstance(p.op, ast.And) == val:
                out += [v for v in p.values if v is not n]
        n = p
    vac = []
    for g in out:
        t = g
        while isinstance(t, ast.UnaryOp) and isinstance(t.op, ast.Not):
            t = t.operand
        if isinstance(t, ast.Call) and call_attr(t) == "len" and t.args:
            t = t.args[0]
        if re.fullmatch(r"(self|other)\.\w+", unparse(t)):
            vac.append(g)  # truthiness of one of the compared sequences: false only when there is nothing to compare
    return [g for g in out if g not in vac]


def _rejecting(fn: ast.FunctionDef, cfg: CFG, node: ast.AST) -> bool:
    """Does a mismatch detected at `node` lead to a False result?  Accepted shapes: the comparison is
    (part of) the test of an `if` whose taken branch is `return False` (a `!=` disjunct, `not all(==)`),
    sits in a for-loop body under such an `if`, or is a conjunct of the returned expression."""
    from ..astutil import parent_map

    g = _gates(fn, node)
    if g:
        GATED.append((node, g))
        return False
    flow = _rejecting_flow(fn, cfg, node)
    if flow is not None:
        return flow
    pm = parent_map(fn)
    n = node
    neg = False  # parity of `not` above us
    in_all = False
    while id(n) in pm:
        p = pm[id(n)]
        if isinstance(p, ast.UnaryOp) and isinstance(p.op, ast.Not):
            neg = not neg
        elif isinstance(p, ast.Call) and call_attr(p) == "all":
            in_all = True
        elif isinstance(p, ast.Call) and call_attr(p) == "any":
            return False if not neg else True
        elif isinstance(p, ast.If) and n is p.test:
            is_ne = isinstance(node, ast.Compare) and isinstance(node.ops[0], ast.NotEq)
            mismatch_true = (is_ne and not in_all and not neg) or ((not is_ne or in_all) and neg)
            if isinstance(node, ast.Call):  # is_structurally_equivalent(...) inside all(...)
                mismatch_true = neg
            branch = p.body if mismatch_true else p.orelse
            return bool(branch) and isinstance(branch[0], ast.Return) and _is_false(branch[0].value)
        elif isinstance(p, ast.Return):
            is_eq = isinstance(node, ast.Call) or isinstance(node.ops[0], ast.Eq)  # type: ignore[attr-defined]
            return is_eq != neg or in_all
        elif isinstance(p, ast.stmt) and not isinstance(p, (ast.If, ast.Return)):
            if isinstance(p, ast.For):
                n = p
                continue
            return False
        n = p
    return False


def _accept_reachable(cfg: CFG, fn: ast.FunctionDef, start: int, env: dict[str, bool], avoid: set[int] | None = None, goal: int | None = None) -> bool:
    """Can a non-False return be reached from CFG node `start`, when boolean flags follow `env`?  Light path
    sensitivity: constant assignments `x = True/False` are tracked along the path and tests `x` / `not x` only
    follow the consistent edge.  Exception edges are not followed."""
    seen: set[tuple[int, frozenset]] = set()
    stack = [(start, dict(env))]
    while stack:
        n, e = stack.pop()
        key = (n, frozenset(e.items()))
        if key in seen:
            continue
        seen.add(key)
        if avoid is not None and n in avoid:
            continue
        if goal is not None and n == goal:
            return True
        node = cfg.nodes[n]
        a = node.ast
        if isinstance(a, ast.Return):
            if goal is not None:
                continue
            if not _is_false(a.value):
                # `return x` with x known False is a rejection too
                if isinstance(a.value, ast.Name) and e.get(a.value.id) is False:
                    continue
                return True
            continue
        if isinstance(a, ast.Raise):
            continue
        if isinstance(a, (ast.Assign, ast.AnnAssign)):
            tgts = a.targets if isinstance(a, ast.Assign) else [a.target]
            for t in tgts:
                if isinstance(t, ast.Name):
                    v = a.value
                    if isinstance(v, ast.Constant) and isinstance(v.value, bool):
                        e[t.id] = v.value
                    else:
                        e.pop(t.id, None)
        only = None
        if node.kind == "test" and a is not None:
            t = a
            neg = False
            while isinstance(t, ast.UnaryOp) and isinstance(t.op, ast.Not):
                t, neg = t.operand, not neg
            if isinstance(t, ast.Name) and t.id in e:
                only = "T" if (e[t.id] != neg) else "F"
        for m, lab in cfg.succ[n]:
            if lab in ("exc", "assert"):
                continue
            if only is not None and lab in ("T", "F") and lab != only:
                continue
            stack.append((m, dict(e)))
    return False


def _rejecting_flow(fn: ast.FunctionDef, cfg: CFG, node: ast.AST) -> bool | None:
    """Path-based version of `_rejecting`: the comparison `node` sits in an if-test or in `flag = <comparison>`;
    when it detects a mismatch, no accepting return is reachable any more.  None = shape not handled here."""
    from ..astutil import parent_map

    pm = parent_map(fn)
    # polarity of "mismatch" at the level of the enclosing statement expression
    n, neg, in_all = node, False, False
    is_ne = isinstance(node, ast.Compare) and isinstance(node.ops[0], ast.NotEq)
    while id(n) in pm and not isinstance(pm[id(n)], ast.stmt):
        p = pm[id(n)]
        if isinstance(p, ast.UnaryOp) and isinstance(p.op, ast.Not):
            neg = not neg
        elif isinstance(p, ast.Call) and call_attr(p) == "all":
            in_all = True
        elif isinstance(p, ast.Call) and call_attr(p) == "any":
            return None
        n = p
    st = pm.get(id(n))
    if st is None:
        return None
    # value of the statement-level expression when a mismatch is detected
    if isinstance(node, ast.Call):
        expr_true_on_mismatch = neg
    else:
        expr_true_on_mismatch = (is_ne and not in_all and not neg) or ((not is_ne or in_all) and neg)
    try:
        nid = cfg.node_of(st if not isinstance(st, (ast.If, ast.While)) else st.test)
    except AnalysisError:
        return None
    if isinstance(st, ast.If) and n is st.test:
        lab = "T" if expr_true_on_mismatch else "F"
        targets = [m for m, l_ in cfg.succ[nid] if l_ == lab]
        return bool(targets) and not any(_accept_reachable(cfg, fn, m, {}) for m in targets)
    if isinstance(st, ast.Assign) and len(st.targets) == 1 and isinstance(st.targets[0], ast.Name) and n is st.value:
        env = {st.targets[0].id: expr_true_on_mismatch}
        return not any(_accept_reachable(cfg, fn, m, dict(env)) for m, l_ in cfg.succ[nid] if l_ not in ("exc", "assert"))
    return None


def _check_fields(idx: Index, rep_rule, qual: str, fields: dict[str, str], module: str = CORE, exprs: dict[str, tuple[str, str]] | None = None, rule: str = "C03.R1") -> None:
    f = idx.func(module, qual)
    fn = f.node
    cfg = CFG(fn)
    pos_returns = [n for n in walk_local(fn) if isinstance(n, ast.Return) and not _is_false(n.value)]
    if not pos_returns:
        raise AnalysisError(f"{f.fq}: no positive return")
    for field, kind in fields.items():
        inst = f"{f.fq}:{field}"
        se, oe = (exprs or {}).get(field, (None, None))
        ln, el, dr = _field_evidence(fn, field, kind, cfg, se, oe, _prop_tuples(f.cls))
        ln0, el0, dr0 = list(ln), list(el), list(dr)
        ln = [n for n in ln if isinstance(n, ast.Call) or _rejecting(fn, cfg, n)]
        el = [n for n in el if _rejecting(fn, cfg, n)]
        dr = [n for n in dr if _rejecting(fn, cfg, n)]
        problems = []
        if kind == "val":
            need = [("compare", dr)]
        else:
            need = [("length", ln + dr), ("elements", el + dr)]
        for what, nodes in need:
            if not nodes:
                cand = set(map(id, ln0 + el0 + dr0))
                gated = [(n_, g_) for n_, g_ in GATED if id(n_) in cand]
                if gated:
                    n_, g_ = gated[0]
                    gt = unparse(g_[0])
                    same_field = bool(re.search(r"\bself\." + re.escape(field) + r"\b", gt) and re.search(r"\bother\." + re.escape(field) + r"\b", gt))
                    if same_field and "context" in unparse(n_):
                        problems.append((f"{field}-comparison-gated", f"the comparison `{unparse(n_)[:90]}` only counts when `{gt[:80]}` holds: for two identical {field} sequences the correspondence recorded in the context is not consulted, so a value of the left IR that the context maps to a *different* value of the right IR is accepted when the right operation names the left value itself"))
                        continue
                    raise AnalysisError(f"{f.fq}: the comparison of `{field}` (`{unparse(n_)[:70]}`) is conditional on `{gt[:70]}`; whether that condition can hide a mismatch is not decided")
                # comparisons of members this rule does not know (`self._key == other._key`, helper predicates taking
                # both sides) may well cover the field: undecided rather than "not compared"
                known_members = {fld for fld in fields} | {e_[0].split(".", 1)[1] for e_ in (exprs or {}).values()}
                opaque = []
                for n_ in walk_local(fn):
                    if isinstance(n_, ast.Compare) and len(n_.ops) == 1 and isinstance(n_.ops[0], (ast.Eq, ast.NotEq)):
                        l_, r_ = unparse(n_.left), unparse(n_.comparators[0])
                        m1, m2 = re.fullmatch(r"(self|other)\.([\w.]+)", l_), re.fullmatch(r"(self|other)\.([\w.]+)", r_)
                        if m1 and m2 and m1.group(1) != m2.group(1) and m1.group(2) == m2.group(2) and m1.group(2) not in known_members and m1.group(2).split(".")[-1] not in known_members and m1.group(2).split(".")[-1].startswith("_"):
                            opaque.append(unparse(n_))
                    if isinstance(n_, ast.Call) and isinstance(n_.func, ast.Attribute) and unparse(n_.func.value) == "self" and n_.func.attr.startswith("_") and any(unparse(a_) == "other" for a_ in n_.args):
                        opaque.append(unparse(n_))
                if opaque:
                    raise AnalysisError(f"{f.fq}: `{field}` is not compared directly, but the function compares members this rule does not look into: {opaque[:2]}")
                if what == "compare":
                    problems.append((f"{field}-not-compared", f"`self.{field}` is never compared with `other.{field}` by a rejecting ==/!= test"))
                elif what == "length":
                    problems.append((f"{field}-length", f"the number of {field} is not compared (zip truncates silently)"))
                else:
                    t = "types of " if kind == "seq-types" else ""
                    problems.append((f"{field}-not-compared", f"the {t}{field} are not compared element-wise (only a len() use does not discriminate)"))
                continue
            # must-pass-through: every path to a positive return evaluates one of the comparison nodes
            ids = {cfg.node_of(n) for n in nodes}
            # a comparison in the body of `for a, b in zip(self.F, other.F)` is evaluated once per element:
            # the loop head stands for it, provided every iteration passes the comparison
            for w in walk_local(fn):
                if isinstance(w, ast.For):
                    inner = [n for n in nodes if any(x is n for x in ast.walk(w))]
                    if inner:
                        head = cfg.node_of(w)
                        cids = {cfg.node_of(n) for n in inner}
                        body_first = [m for m, lab in cfg.succ[head] if lab == "T"]
                        every_iter = all(m in cids or cfg.path_avoiding(m, head, lambda n: n.id in cids) is None for m in body_first)
                        if every_iter:
                            ids.add(head)
            for ret in pos_returns:
                nret = cfg.node_of(ret)
                if nret in ids:
                    continue
                p = cfg.path_avoiding(cfg.entry, nret, lambda n: n.id in ids, follow_exc=False)
                # the path found may be infeasible through a boolean flag (`ok = False ... if not ok: return False`):
                # confirm with the flag-sensitive search before reporting
                if p is not None and _accept_reachable(cfg, fn, cfg.entry, {}, avoid=ids):
                    problems.append((f"{field}-bypass", f"a path reaches `{unparse(ret)}` (line {ret.lineno}) without the {what} comparison of {field}: " + " -> ".join(cfg.describe(p)[-4:])))
                    break
        if problems:
            for k, m in problems:
                rep_rule.fail(inst, Finding(rule, f.fq, k, m, f.loc))
        else:
            rep_rule.ok(inst, f"{f.loc} {field}: compared ({kind}) on every accepting path")


def check(idx: Index, rep: Report, tier: str) -> str:
    r1 = rep.rule("C03.R1", "every semantic field of Operation/Block/Region is compared by a rejecting, discriminating test on every accepting path", floor=10)
    _check_fields(idx, r1, "Operation.is_structurally_equivalent", OP_FIELDS)
    _check_fields(idx, r1, "Block.is_structurally_equivalent", BLOCK_FIELDS)
    _check_fields(idx, r1, "Region.is_structurally_equivalent", REGION_FIELDS)

    # ---- R2: values are paired in the correspondence only after their types were compared
    r2 = rep.rule("C03.R2", "context[x] = y pairing two SSA values is dominated by a comparison of their types", floor=2)
    for qual, field in (("Block.is_structurally_equivalent", "args"), ("Operation.is_structurally_equivalent", "results")):
        f = idx.func(CORE, qual)
        cfg = CFG(f.node)
        found = False
        for z, args, names, owner in _zip_pairs(f.node):
            if set(args) != {f"self.{field}", f"other.{field}"} or not isinstance(owner, ast.For):
                continue
            a, b = (names[0], names[1]) if args[0] == f"self.{field}" else (names[1], names[0])
            stores = [s for s in walk_local(owner) if isinstance(s, ast.Assign) and unparse(s.targets[0]) == f"context[{a}]" and unparse(s.value) == b]
            for s in stores:
                found = True
                ns = cfg.node_of(s)
                # type comparison nodes: element-wise in this loop, or field-level result_types compare anywhere
                tnodes = set()
                for n in walk_local(f.node):
                    if isinstance(n, ast.Compare) and len(n.ops) == 1 and isinstance(n.ops[0], (ast.Eq, ast.NotEq)):
                        lt, rt = unparse(n.left), unparse(n.comparators[0])
                        if {lt, rt} == {f"{a}.type", f"{b}.type"} or (field == "results" and {lt, rt} == {"self.result_types", "other.result_types"}):
                            if _rejecting(f.node, cfg, n):
                                tnodes.add(cfg.node_of(n))
                for zz, aa, nn, oo in _zip_pairs(f.node):
                    if set(aa) == {f"self.{field}", f"other.{field}"} and not isinstance(oo, ast.For):
                        x, y = (nn[0], nn[1]) if aa[0] == f"self.{field}" else (nn[1], nn[0])
                        for n in ast.walk(oo):
                            if isinstance(n, ast.Compare) and {unparse(n.left), unparse(n.comparators[0])} == {f"{x}.type", f"{y}.type"} and _rejecting(f.node, cfg, n):
                                tnodes.add(cfg.node_of(n))
                head = cfg.node_of(owner)
                ok = bool(tnodes) and (cfg.path_avoiding(head, ns, lambda n: n.id in tnodes) is None or cfg.path_avoiding(cfg.entry, head, lambda n: n.id in tnodes) is None or not _accept_reachable(cfg, f.node, cfg.entry, {}, avoid=tnodes, goal=head))
                inst = f"{f.fq}:context[{a}]"
                if ok:
                    r2.ok(inst, f"{f.loc} {a}.type compared before context[{a}] = {b}")
                else:
                    r2.fail(inst, Finding("C03.R2", f.fq, f"untyped-pairing-{field}", f"`context[{a}] = {b}` pairs two values whose types were never compared: operations with result types i32 vs i64 are reported equivalent", f"{f.module.relpath}:{s.lineno}"))
        if not found:
            raise AnalysisError(f"{f.fq}: registration loop `context[x] = y` over {field} not found")

    # ---- R3: lookups in the correspondence are total (identity fallback or membership guard)
    r3 = rep.rule("C03.R3", "a rejecting comparison never relies on context.get(k) without identity fallback or `k in context` guard (reflexivity at top level)", floor=3)
    for qual in ("Operation.is_structurally_equivalent", "Block.is_structurally_equivalent", "Region.is_structurally_equivalent"):
        f = idx.func(CORE, qual)
        for c in calls_in(f.node):
            if call_attr(c) == "get" and isinstance(c.func, ast.Attribute) and unparse(c.func.value) == "context":
                k = unparse(c.args[0])
                inst = f"{f.fq}:context.get({k})"
                if len(c.args) == 2 and unparse(c.args[1]) == k:
                    r3.ok(inst, f"{f.loc} context.get({k}, {k})")
                    continue
                facts = guard_facts(f.node, c)
                if any(pol and isinstance(t, ast.Compare) and isinstance(t.ops[0], ast.In) and unparse(t.left) == k and unparse(t.comparators[0]) == "context" for t, pol in facts):
                    r3.ok(inst, f"{f.loc} context.get({k}) under `{k} in context`")
                    continue
                r3.fail(inst, Finding("C03.R3", f.fq, f"partial-lookup:{k}", f"`{unparse(c)}` yields None for an entity outside the compared fragment and the result is used to reject: an attached operation is not equivalent to itself (sibling lookups use context.get(x, x))", f"{f.module.relpath}:{c.lineno}"))
        for n in walk_local(f.node):
            if isinstance(n, ast.Subscript) and isinstance(n.ctx, ast.Load) and unparse(n.value) == "context":
                k = unparse(n.slice)
                facts = guard_facts(f.node, n)
                inst = f"{f.fq}:context[{k}]"
                if any(pol and isinstance(t, ast.Compare) and isinstance(t.ops[0], ast.In) and unparse(t.left) == k and unparse(t.comparators[0]) == "context" for t, pol in facts):
                    r3.ok(inst)
                else:
                    r3.fail(inst, Finding("C03.R3", f.fq, f"partial-lookup:{k}", f"`context[{k}]` without membership guard", f"{f.module.relpath}:{n.lineno}"))

    # ---- R3b: a comparison of the two parents applies only when both sides have one
    r3b = rep.rule("C03.R3b", "the parent correspondence is compared only when both operations have a parent (an attached operation is equivalent to its detached clone, in both directions)", floor=1)
    f = idx.func(CORE, "Operation.is_structurally_equivalent")
    from ..astutil import norm_facts, text_facts

    cfg3 = CFG(f.node)
    n_par = 0
    for cmpn in walk_local(f.node):
        if not (isinstance(cmpn, ast.Compare) and len(cmpn.ops) == 1 and isinstance(cmpn.ops[0], (ast.Eq, ast.NotEq, ast.Is, ast.IsNot))):
            continue
        try:
            at3 = cfg3.node_of(cmpn)
        except Exception:
            continue
        sides = [resolved_text(cfg3, cmpn.left, at3), resolved_text(cfg3, cmpn.comparators[0], at3)]
        if not (any("self.parent" in x for x in sides) and any("other.parent" in x for x in sides)):
            continue
        n_par += 1
        facts = norm_facts(text_facts(f.node, cmpn))
        missing = [v for v in ("self.parent", "other.parent") if (f"{v} is None", False) not in facts and (v, True) not in facts]
        inst = f"{f.fq}:{unparse(cmpn)[:50]}"
        if missing:
            r3b.fail(inst, Finding("C03.R3b", f.fq, "parent-compare-one-sided", f"`{unparse(cmpn)}` is evaluated without {' and '.join(m + ' is not None' for m in missing)}: an operation inside a block compared with a detached isomorphic operation (its clone) is rejected in one direction only", f"{f.module.relpath}:{cmpn.lineno}"))
        else:
            r3b.ok(inst, f"{f.module.relpath}:{cmpn.lineno} parents compared only when both exist")
    if n_par == 0:
        raise AnalysisError(f"{f.fq}: no comparison of self.parent with other.parent found")

    # ---- R4: referenced entities are registered before references to them are compared
    r4 = rep.rule("C03.R4", "blocks and values defined inside the compared region are registered before any reference to them is compared", floor=2)
    f = idx.func(CORE, "Region.is_structurally_equivalent")
    cfg = CFG(f.node)
    reg_loops = []
    R4 = _resolver(f.node, cfg)
    for z, args, names, owner in _zip_pairs(f.node, R4):
        args = [R4(a_) if any(a_ is x_ for x_ in ast.walk(f.node)) else unparse(a_) for a_ in z.args[:2]]
        if set(args) == {"self.blocks", "other.blocks"} and isinstance(owner, ast.For):
            a, b = (names[0], names[1]) if args[0] == "self.blocks" else (names[1], names[0])
            if any(isinstance(s, ast.Assign) and unparse(s.targets[0]) == f"context[{a}]" and unparse(s.value) == b for s in owner.body):
                reg_loops.append(owner)
    descends = [c for c in calls_in(f.node) if call_attr(c) == "is_structurally_equivalent"]
    if not descends:
        raise AnalysisError(f"{f.fq}: descent into blocks not found")
    if reg_loops:
        heads = {cfg.node_of(l) for l in reg_loops}
        bypass = any(cfg.path_avoiding(cfg.entry, cfg.node_of(d), lambda n: n.id in heads) is not None for d in descends)
        if bypass:
            r4.fail(f.fq + ":blocks", Finding("C03.R4", f.fq, "blocks-not-preregistered", "a path compares blocks before all blocks of the region are registered (forward successor references)", f.loc))
        else:
            r4.ok(f.fq + ":blocks", f"{f.loc} all blocks registered before descent")
    else:
        r4.fail(f.fq + ":blocks", Finding("C03.R4", f.fq, "blocks-not-preregistered", "blocks are not registered in the correspondence before their contents are compared (forward successor references)", f.loc))
    # values: is there any pre-registration of op results (a loop/walk storing context[result]) in Region or Block before descent?
    pre_values = False
    for qual in ("Region.is_structurally_equivalent", "Block.is_structurally_equivalent"):
        g = idx.func(CORE, qual)
        gcfg = CFG(g.node)
        desc = [c for c in calls_in(g.node) if call_attr(c) == "is_structurally_equivalent"]
        for s in walk_local(g.node):
            if isinstance(s, ast.Assign) and isinstance(s.targets[0], ast.Subscript) and unparse(s.targets[0].value) == "context":
                # a store whose key iterates over results of ops (not args, not blocks)
                loops = [w for w in walk_local(g.node) if isinstance(w, ast.For) and any(x is s for x in ast.walk(w))]
                if any("results" in unparse(w.iter) or "walk" in unparse(w.iter) for w in loops):
                    ns = gcfg.node_of(s)
                    if all(gcfg.path_avoiding(gcfg.entry, gcfg.node_of(d), lambda n: n.id == ns) is None or True for d in desc):
                        pre_values = True
    op = idx.func(CORE, "Operation.is_structurally_equivalent")
    deferred = not any(call_attr(c) == "get" and "operand" in unparse(c) for c in calls_in(op.node))
    if pre_values or deferred:
        r4.ok(op.fq + ":values", "results pre-registered / operand comparison deferred")
    else:
        r4.fail(op.fq + ":values", Finding("C03.R4", op.fq, "values-not-preregistered", "operands are compared with identity fallback (`context.get(operand, operand)`) while results are registered only after each operation: a region in which a value is used before its definition (graph region, dominance-ordered blocks) is not equivalent to its clone", op.loc))

    # ---- R5: CSE key: hash reads ⊆ eq reads; eq covers the semantic fields
    r5 = rep.rule("C03.R5", "OperationInfo.__hash__ reads a subset of what __eq__ compares; __eq__ covers name, attributes, properties, operands, result types, regions; terminators are never keyed", floor=3)
    hf = idx.func(CSE, "OperationInfo.__hash__")
    ef = idx.func(CSE, "OperationInfo.__eq__")

    def reads(fn):
        out = set()
        called = {id(c.func) for c in calls_in(fn, local=False)}
        # locals bound once to a plain attribute chain (`lhs_op, rhs_op = self.op, other.op`) stand for that chain
        nstores: dict[str, int] = {}
        for n in walk_local(fn):
            if isinstance(n, ast.Name) and isinstance(n.ctx, ast.Store):
                nstores[n.id] = nstores.get(n.id, 0) + 1
        alias: dict[str, str] = {}
        for st in walk_local(fn):
            if isinstance(st, ast.Assign) and len(st.targets) == 1:
                tg, v = st.targets[0], st.value
                pairs = [(tg, v)] if isinstance(tg, ast.Name) else list(zip(tg.elts, v.elts)) if isinstance(tg, ast.Tuple) and isinstance(v, ast.Tuple) and len(tg.elts) == len(v.elts) else []
                for t_, v_ in pairs:
                    if isinstance(t_, ast.Name) and nstores.get(t_.id) == 1 and isinstance(v_, ast.Attribute) and attr_chain(v_):
                        alias[t_.id] = attr_chain(v_)
        for n in walk_local(fn):
            if isinstance(n, ast.Attribute) and id(n) in called and hf.cls is not None and n.attr in hf.cls.methods:
                continue  # a call of a helper method is not a field read (its arguments are walked separately)
            if isinstance(n, ast.Attribute):
                ch = attr_chain(n)
                if ch and ch.split(".")[0] in alias:
                    ch = alias[ch.split(".")[0]] + ch[len(ch.split(".")[0]) :]
                if ch and ch.startswith("self.") and ch not in ("self.op",):
                    out.add(ch.split(".items")[0])
        return {c for c in out if not any(o != c and o.startswith(c + ".") for o in out)}

    hr, er = reads(hf.node), reads(ef.node)
    extra = hr - er
    if extra:
        r5.fail(hf.fq, Finding("C03.R5", hf.fq, "hash-not-subset", f"__hash__ reads {sorted(extra)} which __eq__ does not compare: equal keys may hash differently", hf.loc))
    else:
        r5.ok(hf.fq, f"{hf.loc} hash reads {sorted(hr)} ⊆ eq reads")
    # a dictionary-valued field enters the hash in a form that does not depend on insertion order (__eq__ compares the
    # dictionaries with ==, which ignores order)
    from ..astutil import parent_map as _pm5

    pm5 = _pm5(hf.node)
    ordered = None
    for n in ast.walk(hf.node):
        if isinstance(n, ast.Attribute) and n.attr in ("attributes", "properties"):
            up, q = [], n
            while id(q) in pm5:
                q = pm5[id(q)]
                up.append(q)
            verdict = None
            for u in up:
                if isinstance(u, ast.Call):
                    fn_ = unparse(u.func)
                    if isinstance(u.func, ast.Attribute) and u.func.attr in ("items", "keys", "values") and not u.args:
                        continue
                    if fn_ in ("sum", "frozenset", "sorted", "set", "len", "min", "max"):
                        verdict = "independent"
                        break
                    if fn_ in ("tuple", "list", "str", "repr"):
                        verdict = "ordered"
                        continue
                    if fn_ == "hash":
                        break  # reached the hash with whatever was decided so far
                    verdict = "unknown"  # handed to a helper this clause does not look into
                    break
                if isinstance(u, ast.SetComp):
                    verdict = "independent"
                    break
            if verdict == "ordered":
                ordered = n
                break
    if ordered is not None:
        r5.fail(hf.fq + ":order", Finding("C03.R5", hf.fq, f"hash-order-dependent:{ordered.attr}", f"__hash__ takes the entries of `{unparse(ordered)}` in insertion order, while __eq__ compares the dictionaries with == (order ignored) and also requires equal hashes: two operations whose {ordered.attr} were filled in a different order are structurally equivalent but get different keys, so CSE keeps both", hf.loc))
    else:
        r5.ok(hf.fq + ":order", f"{hf.loc} dictionary fields enter the hash in an order-independent form")
    cse_fields = {"name": "val", "attributes": "val", "properties": "val", "operands": "val", "result_types": "val", "regions": "seq"}
    cse_exprs = {"name": ("self.name", "other.name"), "attributes": ("self.op.attributes", "other.op.attributes"), "properties": ("self.op.properties", "other.op.properties"),
                 "operands": ("self.op.operands", "other.op.operands"), "result_types": ("self.op.result_types", "other.op.result_types"), "regions": ("self.op.regions", "other.op.regions")}
    _check_fields(idx, r5, "OperationInfo.__eq__", cse_fields, module=CSE, exprs=cse_exprs, rule="C03.R5")
    # terminators never keyed
    sf = idx.try_func(CSE, "CSEDriver._simplify_operation") or idx.func(CSE, "CSEDriver.simplify_operation")
    cfg = CFG(sf.node)
    term_tests = [n for n in walk_local(sf.node) if isinstance(n, ast.If) and "IsTerminator" in unparse(n.test) and n.body and isinstance(n.body[-1], ast.Return)]
    uses = [n for n in walk_local(sf.node) if isinstance(n, ast.Attribute) and attr_chain(n) == "self._known_ops"]
    if not term_tests or not uses:
        raise AnalysisError(f"{sf.fq}: terminator early-return or _known_ops use not found")
    tnodes = {cfg.node_of(t.test) for t in term_tests}
    if any(cfg.path_avoiding(cfg.entry, cfg.node_of(u), lambda n: n.id in tnodes) is not None for u in uses):
        r5.fail(sf.fq, Finding("C03.R5", sf.fq, "terminator-keyed", "a terminator can reach the known-ops table although successors are not part of the key", sf.loc))
    else:
        r5.ok(sf.fq, f"{sf.loc} returns on IsTerminator before any _known_ops access")

    # ---- R6: clients that decide "nothing changed" compare the whole roots
    r6 = rep.rule("C03.R6", "ModulePass.schedule_space decides 'the pass changed nothing' by comparing the module it was given with the whole clone returned by apply_to_clone (root attributes and properties included), not a part of each", floor=1)
    sp = idx.func("xdsl.passes", "ModulePass.schedule_space")
    scfg = CFG(sp.node)
    ecalls = [c for c in calls_in(sp.node) if call_attr(c) == "is_structurally_equivalent" and isinstance(c.func, ast.Attribute) and c.args]
    if not ecalls:
        raise AnalysisError(f"{sp.fq}: no is_structurally_equivalent call")
    params = [a.arg for a in sp.node.args.args]
    mod_param = params[2] if len(params) > 2 else None
    clone_names = set()
    for n in walk_local(sp.node):
        if isinstance(n, ast.Assign) and isinstance(n.value, ast.Call) and call_attr(n.value) == "apply_to_clone" and len(n.targets) == 1:
            t = n.targets[0]
            if isinstance(t, ast.Tuple) and len(t.elts) == 2 and isinstance(t.elts[1], ast.Name):
                clone_names.add(t.elts[1].id)
    if mod_param is None or not clone_names:
        raise AnalysisError(f"{sp.fq}: module parameter / `_, clone = apply_to_clone(...)` not found")
    for c in ecalls:
        at = scfg.node_of(c)
        sides = [resolved_text(scfg, c.func.value, at), resolved_text(scfg, c.args[0], at)]
        want = [{mod_param}, set(clone_names)]
        for i_, s_ in enumerate(sides):
            m_ = re.match(r"^(.+\.apply_to_clone\(.*\)\[1\])(.*)$", s_)
            if m_:
                want[1].add(m_.group(1))
        if (sides[0] in want[0] and sides[1] in want[1]) or (sides[0] in want[1] and sides[1] in want[0]):
            r6.ok(sp.fq, f"{sp.loc} `{unparse(c)}` compares the given module with the whole clone")
            continue
        part = [s_ for s_ in sides if any(s_.startswith(w + ".") or s_.startswith(w + "[") for w in want[0] | want[1])]
        if part:
            r6.fail(sp.fq, Finding("C03.R6", sp.fq, "partial-comparison", f"`{unparse(c)}` compares only {part} of the two modules: a pass that changes what is left out (attributes / properties of the root operation) is classified as changing nothing and dropped from the schedule, although the modules are not structurally equivalent", sp.loc))
        else:
            raise AnalysisError(f"{sp.fq}: operands of `{unparse(c)}` not understood ({sides})")

    return (
        "AST/CFG rules over the three is_structurally_equivalent methods of xdsl/ir/core.py and CSE's OperationInfo: "
        "field coverage with discriminating, rejecting comparisons on every accepting path (must-pass-through), typed "
        "pairing of values, total lookups in the correspondence (reflexivity), pre-registration of referenced entities, "
        "hash ⊆ eq for the CSE key. Completeness of the relation on arbitrary isomorphic pairs is not decided."
    )
