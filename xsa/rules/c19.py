"""C19 — register allocation (narrow claim): ownership of frees, register-stack discipline,
exclusion before allocation (sibling agreement RISC-V / x86), zero register rule, live-in computation."""

from __future__ import annotations

import ast
import re

from ..astutil import alpha_text, call_attr, calls_in, guard_facts, unparse, walk_local
from ..cfg import CFG
from ..dataflow import reaching_defs, resolved_text
from ..report import Finding, Report
from ..srcindex import AnalysisError, Index, raw_funcs

RS = "xdsl/backend/register_stack.py"
RA = "xdsl/backend/register_allocator.py"
RAB = "xdsl/backend/register_allocatable.py"


def _derives_from_outs(f, cfg: CFG, e: ast.AST, at: int, depth: int = 6) -> str | None:
    """Return a description if `e` derives only from values the operation defines, else None."""
    t = unparse(e)
    if re.fullmatch(r"self\.body\.block\.args(\[\d+\])?", t) or re.fullmatch(r"self\.(results|res|result)(\[\d+\])?", t):
        return t
    if isinstance(e, ast.Name):
        # the second component of `ins, outs, inouts = self.get_register_constraints()`, whatever the locals are called
        stores_ = [s_ for s_ in walk_local(f.node) if any(isinstance(x_, ast.Name) and isinstance(x_.ctx, ast.Store) and x_.id == e.id for x_ in ast.walk(s_)) and isinstance(s_, (ast.Assign, ast.AnnAssign, ast.AugAssign, ast.For, ast.With))]
        if len(stores_) == 1 and isinstance(stores_[0], ast.Assign) and isinstance(stores_[0].targets[0], ast.Tuple) and len(stores_[0].targets[0].elts) == 3 and unparse(stores_[0].value) == "self.get_register_constraints()" and unparse(stores_[0].targets[0].elts[1]) == e.id:
            return "outs"
    if depth <= 0:
        return None
    if isinstance(e, ast.Call) and call_attr(e) in ("reversed", "tuple", "list") and e.args:
        return _derives_from_outs(f, cfg, e.args[0], at, depth - 1)
    # one element taken out of a collection of own definitions
    if isinstance(e, ast.Call) and call_attr(e) == "pop" and isinstance(e.func, ast.Attribute):
        return _derives_from_outs(f, cfg, e.func.value, at, depth - 1)
    if isinstance(e, ast.Subscript) and not isinstance(e.slice, ast.Slice):
        d0 = _derives_from_outs(f, cfg, e.value, at, depth - 1)
        if d0 is not None:
            return d0
    # [g(v) for v in <own definitions>] where g returns v or its allocated twin
    if isinstance(e, (ast.ListComp, ast.GeneratorExp)) and len(e.generators) == 1 and not e.generators[0].ifs and isinstance(e.generators[0].target, ast.Name):
        g_ = e.generators[0]
        src = _derives_from_outs(f, cfg, g_.iter, at, depth - 1)
        if src is not None:
            v_ = g_.target.id
            elt = e.elt
            if isinstance(elt, ast.Name) and elt.id == v_:
                return src
            if isinstance(elt, ast.IfExp):
                twins = {n_.target.id for n_ in ast.walk(e) if isinstance(n_, ast.NamedExpr) and isinstance(n_.target, ast.Name) and isinstance(n_.value, ast.Call) and call_attr(n_.value) == "allocate_value" and any(isinstance(a_, ast.Name) and a_.id == v_ for a_ in n_.value.args)}
                if all(isinstance(b_, ast.Name) and (b_.id == v_ or b_.id in twins) for b_ in (elt.body, elt.orelse)):
                    return src
            if isinstance(elt, ast.Call) and any(isinstance(a_, ast.Name) and a_.id == v_ for a_ in elt.args):
                nm_ = call_attr(elt) or (elt.func.id if isinstance(elt.func, ast.Name) else "")
                if nm_ == "allocate_value":
                    return src
                h_ = f.module.functions.get(nm_) if isinstance(elt.func, ast.Name) else None
                if h_ is not None:
                    params_ = {a_.arg for a_ in h_.raw_node.args.args}
                    rets_ = [x for x in walk_local(h_.as_raw().node) if isinstance(x, ast.Return) and x.value is not None]
                    ok_ = bool(rets_)
                    for rt_ in rets_:
                        for nn_ in ast.walk(rt_.value):
                            if isinstance(nn_, ast.Name) and nn_.id not in params_ and not any(isinstance(s_, ast.Assign) and unparse(s_.targets[0]) == nn_.id and isinstance(s_.value, ast.Call) and call_attr(s_.value) == "allocate_value" for s_ in walk_local(h_.as_raw().node)):
                                ok_ = False
                    if ok_:
                        return src
    if isinstance(e, ast.Name):
        descs = []
        for nid, val in reaching_defs(cfg, e.id, at):
            node = cfg.nodes[nid]
            if nid == cfg.entry:
                return None
            if val is not None:
                if isinstance(val, ast.List) and not val.elts:
                    # list filled by append(x): all appended values must derive from outs
                    apps = [c for c in calls_in(f.node) if unparse(c.func) == f"{e.id}.append"]
                    if not apps:
                        return None
                    for a in apps:
                        d = _derives_from_outs(f, cfg, a.args[0], cfg.node_of(a), depth - 1)
                        if d is None:
                            return None
                        descs.append(d)
                    continue
                if isinstance(val, ast.NamedExpr):
                    val = val.value
                if isinstance(val, ast.Call) and call_attr(val) == "allocate_value" and val.args:
                    d = _derives_from_outs(f, cfg, val.args[0], nid, depth - 1)
                elif isinstance(val, ast.Subscript) and unparse(val.value) == "self.get_register_constraints()":
                    d = "outs" if unparse(val.slice) == "1" else None
                else:
                    d = _derives_from_outs(f, cfg, val, nid, depth - 1)
                if d is None:
                    return None
                descs.append(d)
            elif node.kind == "for":
                d = _derives_from_outs(f, cfg, node.ast.iter, nid, depth - 1)  # type: ignore[union-attr]
                if d is None:
                    return None
                descs.append(d)
            else:
                return None
        return ",".join(sorted(set(descs))) if descs else None
    return None


def check_frees(idx: Index, rep: Report) -> None:
    r = rep.rule("C19.R1", "free_value is called only on values the current operation defines (outs, own results, block arguments of its own regions) - never on an operand", floor=2)
    impls = [f for mi in idx.modules.values() for f in mi.functions.values() if f.name == "allocate_registers"]
    if len(impls) < 5:
        raise AnalysisError(f"only {len(impls)} allocate_registers implementations found")
    n = 0
    for f in impls:
        cfg = CFG(f.node)
        # collections whose members are put in ONE register together with an operand of the operation
        # (`allocate_values_same_reg((block_arg, operand, yield_operand, op_result))` over zip(args, self.iter_args, ...)):
        # the register holds the operand, which is live above the operation, so no member may be freed here
        shared_with_operand: set[str] = set()
        for g_ in calls_in(f.node):
            if call_attr(g_) == "allocate_values_same_reg" and g_.args and isinstance(g_.args[0], (ast.Tuple, ast.List)):
                srcs = []
                # operand fields of the operation class (`lb = operand_def(...)`): members of the group that are operands
                opfields: set[str] = set()
                if f.cls is not None:
                    for ci_ in idx.mro(f.cls):
                        for nm_, v_ in ci_.class_assigns().items():
                            if isinstance(v_, ast.Call) and re.fullmatch(r"(var_|opt_)?operand_def", unparse(v_.func).split(".")[-1]):
                                opfields.add(nm_)
                for e_ in g_.args[0].elts:
                    src_ = unparse(e_)
                    if not isinstance(e_, ast.Name):
                        src_ = resolved_text(cfg, e_, cfg.node_of(g_))
                        if re.fullmatch(r"self\.(\w+)", src_) and src_.split(".")[1] in opfields:
                            src_ = src_ + " (operand)"
                    if isinstance(e_, ast.Name):
                        for w_ in walk_local(f.node):
                            if isinstance(w_, ast.For) and any(x is g_ for x in ast.walk(w_)) and isinstance(w_.iter, ast.Call) and unparse(w_.iter.func) == "zip" and isinstance(w_.target, ast.Tuple):
                                for t_, it_ in zip(w_.target.elts, w_.iter.args):
                                    if unparse(t_) == e_.id:
                                        src_ = resolved_text(cfg, it_, cfg.node_of(w_))
                    srcs.append(src_)
                if any(re.search(r"self\.(iter_args|operands|ins)\b|operand", s_) and "yield" not in s_ for s_ in srcs):
                    shared_with_operand |= set(srcs)
        for c in calls_in(f.node):
            if call_attr(c) == "free_value" and c.args and shared_with_operand:
                a0 = c.args[0]
                src_ = unparse(a0)
                if isinstance(a0, ast.Name):
                    for w_ in walk_local(f.node):
                        if isinstance(w_, ast.For) and any(x is c for x in ast.walk(w_)) and unparse(w_.target) == a0.id:
                            src_ = resolved_text(cfg, w_.iter, cfg.node_of(w_))
                else:
                    src_ = resolved_text(cfg, a0, cfg.node_of(c))
                src_ = re.sub(r"^(?:reversed|tuple|list)\((.*)\)$", r"\1", src_)
                if src_ in shared_with_operand:
                    r.fail(f"{f.fq}:free-shared({src_})", Finding("C19.R1", f.fq, f"free-of-shared-register:{src_}", f"`{unparse(c)}` frees a member of `{src_}`, which allocate_values_same_reg put in the same register as an operand of this operation: the register is handed out again while the operand (e.g. the initial value of a loop-carried variable) is still live above", f"{f.module.relpath}:{c.lineno}"))
        # names bound by `ins, outs, inouts = self.get_register_constraints()`
        for c in calls_in(f.node):
            if call_attr(c) == "free_value" and c.args:
                n += 1
                d = _derives_from_outs(f, cfg, c.args[0], cfg.node_of(c))
                inst = f"{f.fq}:free_value({unparse(c.args[0])})"
                if d is not None:
                    r.ok(inst, f"{f.module.relpath}:{c.lineno} frees {d}")
                else:
                    r.fail(inst, Finding("C19.R1", f.fq, f"free-of-non-definition:{unparse(c.args[0])}", f"`{unparse(c)}` frees a value that is not defined by this operation (an operand / live-in): its register becomes available while the value is still live above", f"{f.module.relpath}:{c.lineno}"))
    rep.extra["allocate_registers_implementations"] = len(impls)
    if n < 2:
        raise AnalysisError("free_value call sites not found")


def check_stack(idx: Index, rep: Report) -> None:
    r = rep.rule("C19.R2", "RegisterStack: push never makes a reserved or non-allocatable physical register available, pop never returns a reserved one, reservation changes never change availability, reserve/unreserve are paired", floor=5)
    f = idx.func(RS, "RegisterStack.push")
    from ..paths import enum_paths, expand_predicates

    bad_push = []
    n_app = 0
    for pth in expand_predicates(enum_paths(f.node), {}):
        if not pth.feasible():
            continue
        apps = [k for k, e_ in enumerate(pth.effects) if isinstance(e_, ast.Expr) and isinstance(e_.value, ast.Call) and call_attr(e_.value) in ("append", "add", "insert") and "available" in pth.res(e_.value.func.value, k)]  # type: ignore[attr-defined]
        if not apps:
            continue
        n_app += 1
        nf = pth.nfacts()
        ix = pth.res(pth.effects[apps[0]].value.args[-1], apps[0])  # type: ignore[union-attr]  # the index that is made available
        neg = any((t_ in (f"{ix} < 0", "index < 0") and p_) or (t_ in (f"{ix} >= 0", f"0 <= {ix}", "index >= 0", "0 <= index") and not p_) for t_, p_ in nf)
        reserved = next((p_ for t_, p_ in nf if re.fullmatch(r".+ in self\.reserved_registers\[.+\]", t_)), None)
        allocatable = next((p_ for t_, p_ in nf if re.fullmatch(r".+ in self\.allocatable_registers\[.+\]", t_)), None)
        if neg or (reserved is False and allocatable is True):
            continue
        bad_push.append(f"a path makes the register available with reserved={reserved}, allocatable={allocatable}, negative index={neg}")
    if n_app == 0:
        raise AnalysisError(f"{f.fq}: no path appends to the available registers")
    if not bad_push:
        r.ok(f.fq, f"{f.loc} reserved / non-allocatable physical registers are not pushed ({n_app} appending paths)")
    else:
        r.fail(f.fq, Finding("C19.R2", f.fq, "push-guard", "push must return early for a physical register that is reserved or not allocatable: " + bad_push[0], f.loc))
    # an index is on the stack at most once: every appending path either knows the index is absent or removed it first
    dup = []
    undecided = []
    for pth in expand_predicates(enum_paths(f.node), {}):
        if not pth.feasible():
            continue
        apps = [k for k, e_ in enumerate(pth.effects) if isinstance(e_, ast.Expr) and isinstance(e_.value, ast.Call) and call_attr(e_.value) in ("append", "add", "insert") and "available" in pth.res(e_.value.func.value, k)]  # type: ignore[attr-defined]
        if not apps:
            continue
        k = apps[0]
        cont = pth.res(pth.effects[k].value.func.value, k)  # type: ignore[union-attr]
        el = pth.res(pth.effects[k].value.args[-1], k)  # type: ignore[union-attr]
        removed = any(isinstance(e_, ast.Expr) and isinstance(e_.value, ast.Call) and call_attr(e_.value) in ("remove", "discard") and pth.res(e_.value.func.value, j) == cont and pth.res(e_.value.args[0], j) == el for j, e_ in enumerate(pth.effects[:k]))  # type: ignore[attr-defined]
        member = next((p_ for t_, p_ in pth.nfacts() if t_ == f"{el} in {cont}"), None)
        if member is False or removed:
            continue
        if member is True:
            dup.append(f"a path appends `{el}` to {cont} although it is already there and was not removed")
        else:
            undecided.append(f"a path appends `{el}` to {cont} without a membership test this rule can read")
    if dup:
        r.fail(f.fq + ":nodup", Finding("C19.R2", f.fq, "duplicate-push", "a register can be on the available stack twice (it would be handed out to two values): " + dup[0], f.loc))
    elif undecided:
        r.fail(f.fq + ":nodup", Finding("C19.R2", f.fq, "duplicate-push-unrecognised", undecided[0], f.loc))
    else:
        r.ok(f.fq + ":nodup", f"{f.loc} an index is on the stack at most once")
    g = idx.func(RS, "RegisterStack.pop")
    problems = []
    shape = []
    n_ret = 0
    for pth in expand_predicates(enum_paths(g.node), {}):
        if not pth.feasible() or pth.end != "return" or pth.value is None:
            continue
        n_ret += 1
        nf = pth.nfacts()
        rv = pth.rvalue() or ""
        k_end = len(pth.effects)
        # where does the returned register come from on this path
        src = pth.res(pth.value)
        if "infinite_register(" in src:
            if ("self.allow_infinite", True) not in nf:
                problems.append(("pop-guard", "an infinite (virtual) register is handed out on a path that does not know allow_infinite to be set: exhaustion must raise OutOfRegisters"))
        elif ".pop(" in src or "from_index(" in src:
            if not any(p_ and re.fullmatch(r"self\.available_registers\[.+\]|len\(self\.available_registers\[.+\]\)( > 0| != 0| >= 1)?", t_) for t_, p_ in nf):
                shape.append("a register is taken from the pool on a path where the pool is not known to be non-empty")
        else:
            shape.append(f"origin of the returned register `{src[:60]}` not recognised")
        checks = [e_ for j, e_ in enumerate(pth.effects) if isinstance(e_, ast.Assert) and re.fullmatch(r".+ not in self\.reserved_registers\[.+\]", pth.res(e_.test, j))]
        facts_ok = any(not p_ and re.fullmatch(r".+ in self\.reserved_registers\[.+\]", t_) for t_, p_ in nf)
        if not checks and not facts_ok:
            shape.append("a register is returned on a path without the check that it is not reserved")
    raises = [n for n in walk_local(g.node) if isinstance(n, ast.Raise) and n.exc is not None and "OutOfRegisters" in unparse(n.exc)]
    if n_ret == 0:
        raise AnalysisError(f"{g.fq}: no returning path")
    if not raises:
        problems.append(("pop-guard", "pop never raises OutOfRegisters: exhaustion of the pool is not reported"))
    if problems:
        r.fail(g.fq, Finding("C19.R2", g.fq, problems[0][0], problems[0][1], g.loc))
    elif shape:
        r.fail(g.fq, Finding("C19.R2", g.fq, "pop-guard-unrecognised", shape[0], g.loc))
    else:
        r.ok(g.fq, f"{g.loc} pop refuses reserved registers and reports exhaustion ({n_ret} returning paths)")
    for q in ("RegisterStack.reserve_register", "RegisterStack.unreserve_register"):
        h = idx.func(RS, q)
        bad = [c for c in calls_in(h.node) if unparse(c.func) in ("self.push", "self.include_register") or (isinstance(c.func, ast.Attribute) and "available" in unparse(c.func.value) and c.func.attr in ("append", "remove", "pop", "insert", "extend"))]
        if bad:
            r.fail(h.fq, Finding("C19.R2", h.fq, "reservation-changes-availability", f"`{unparse(bad[0])}`: changing a reservation count must not make the register available - the value that was reserved (e.g. a loop's init value) is still live in it", f"{RS}:{bad[0].lineno}"))
        else:
            r.ok(h.fq, f"{h.loc} only the reservation count changes")
    cm = idx.func(RS, "RegisterStack.reserve_registers")
    body = [alpha_text(s) for s in cm.node.body if not (isinstance(s, ast.Expr) and isinstance(s.value, ast.Constant))]
    regs = cm.node.args.args[1].arg
    if body == [f"for _a0 in {regs}:\n    self.reserve_register(_a0)", "yield", f"for _a0 in {regs}:\n    self.unreserve_register(_a0)"]:
        r.ok(cm.fq, f"{cm.loc} reserve ... yield ... unreserve over the same registers")
    else:
        r.fail(cm.fq, Finding("C19.R2", cm.fq, "unpaired-reservation", "the reservation context manager must reserve and unreserve exactly the same registers", cm.loc))
    fv = idx.func(RA, "ValueAllocator.free_value")
    from ..astutil import text_facts as _tf19

    vp = fv.node.args.args[1].arg
    pushes = [c for c in calls_in(fv.node) if unparse(c.func) == "self.available_registers.push"]
    if not pushes:
        raise AnalysisError(f"{fv.fq}: no push onto the available registers found")

    def _push_ok(c: ast.Call) -> bool:
        fs = set(_tf19(fv.node, c))
        return len(c.args) == 1 and unparse(c.args[0]) == f"{vp}.type" and (f"isinstance({vp}.type, self.register_base_class)", True) in fs and (f"{vp}.type.is_allocated", True) in fs

    if all(_push_ok(c) for c in pushes):
        r.ok(fv.fq, f"{fv.loc} only allocated registers of the allocator's class are returned")
    else:
        r.fail(fv.fq, Finding("C19.R2", fv.fq, "free-value", "free_value must push only allocated registers of the allocator's register class", fv.loc))


def check_exclusion(idx: Index, rep: Report) -> None:
    r = rep.rule("C19.R3", "both allocate_func implementations exclude pre-allocated and excluded registers before allocating the block", floor=2)
    for mod, q in (("xdsl/backend/riscv/register_allocation.py", "RegisterAllocatorLivenessBlockNaive.allocate_func"), ("xdsl/backend/x86/register_allocation.py", "X86RegisterAllocator.allocate_func")):
        f = idx.try_func(mod, q)
        if f is None:
            cands = [x for x in idx.module(mod).functions.values() if x.name == "allocate_func"]
            if len(cands) != 1:
                raise AnalysisError(f"{mod}: allocate_func not found")
            f = cands[0]
        cfg = CFG(f.node)
        loops = [w for w in walk_local(f.node) if isinstance(w, ast.For) and any(unparse(c.func) == "self.available_registers.exclude_register" for c in calls_in(w))]
        alloc = [c for c in calls_in(f.node) if unparse(c.func) == "self.allocate_block"]
        ok = False
        if loops and alloc:
            it = unparse(loops[0].iter)
            defs = {unparse(s.targets[0]): unparse(s.value) for s in walk_local(f.node) if isinstance(s, ast.Assign)}
            parts = set(re.split(r"\s*\|\s*", it))
            srcs = {defs.get(p, p) for p in parts}
            ok = {"RegisterAllocatableOperation.all_used_registers(func.body)", "RegisterAllocatableOperation.all_excluded_registers(func.body)"} <= srcs and cfg.path_avoiding(cfg.entry, cfg.node_of(alloc[0]), lambda n: n.id == cfg.node_of(loops[0]), follow_exc=False) is None
        skip = None
        if ok:
            w = loops[0]
            head = cfg.node_of(w)
            exn = {cfg.node_of(c) for c in calls_in(w) if unparse(c.func) == "self.available_registers.exclude_register" and c.args and unparse(c.args[0]) == unparse(w.target)}
            for m, lab in cfg.succ[head]:
                if lab != "T" or m in exn:
                    continue
                pth = cfg.path_avoiding(m, head, lambda n: n.id in exn, follow_exc=False)
                if pth is not None:
                    tests_ = [cfg.nodes[x].text() for x in [m] + pth if cfg.nodes[x].kind == "test"]
                    if tests_ and all(re.search(r"is_allocated|isinstance\(\w+\.index, IntAttr\)", t_) for t_ in tests_):
                        continue  # an unallocated register type has no index to exclude
                    skip = pth
            if not exn:
                skip = []
        if ok and skip is not None:
            r.fail(f.fq, Finding("C19.R3", f.fq, "exclusion-conditional", "an iteration over the pre-allocated / excluded registers skips exclude_register: " + " -> ".join(cfg.describe(skip)[-3:]) + " - the pool is keyed by register index, not by register type, so a filter on the register object (e.g. membership in the list of 64-bit default registers) leaves the narrower views of argument registers in the pool and they are handed to other values while the argument is live", f.loc))
        elif ok:
            r.ok(f.fq, f"{f.loc} used ∪ excluded registers removed from the pool before allocate_block")
        else:
            r.fail(f.fq, Finding("C19.R3", f.fq, "no-exclusion", "allocate_block can run without the pre-allocated and excluded registers having been removed from the pool: a pre-assigned register is handed to another live value", f.loc))
        if "self.live_ins_per_block = live_ins_per_block(block)" in unparse(f.node):
            r.ok(f.fq + ":live-ins", None)


def check_zero(idx: Index, rep: Report) -> None:
    r = rep.rule("C19.R4", "a value is placed in the hard-wired zero register only if it is the constant 0", floor=1)
    mod = "xdsl/backend/riscv/register_allocation.py"
    cands = [x for x in idx.module(mod).functions.values() if x.name == "new_type_for_value"]
    if not cands:
        raise AnalysisError("new_type_for_value not found")
    f = cands[0]
    rets = [n for n in walk_local(f.node) if isinstance(n, ast.Return) and n.value is not None and unparse(n.value) == "Registers.ZERO"]
    if not rets:
        raise AnalysisError(f"{f.fq}: ZERO placement not found")
    from ..astutil import norm_facts, text_facts

    regp = f.node.args.args[1].arg
    for rt in rets:
        nf = norm_facts(text_facts(f.node, rt))
        const_known = any(re.search(rf"get_constant_value\({regp}\)", t_) and re.search(r"is None$", t_) and not p_ for t_, p_ in nf)
        is_zero = any(re.search(rf"get_constant_value\({regp}\)\)?\.value\.data == 0$|^\w+\.value\.data == 0$", t_) and p_ for t_, p_ in nf)
        unalloc = (f"{regp}.type.is_allocated", False) in nf
        if not (const_known and is_zero):
            r.fail(f.fq, Finding("C19.R4", f.fq, "zero-without-constant-test", f"Registers.ZERO is chosen without the value being known to be the constant 0 (facts: {sorted(nf)[:4]}): a non-zero value would read as 0", f.loc))
        elif not unalloc:
            r.fail(f.fq, Finding("C19.R4", f.fq, "zero-for-allocated-register", f"Registers.ZERO is chosen without `not {regp}.type.is_allocated`: a zero constant that already has a register (pre-assigned a0, or tied to a loop-carried value) is retyped to `zero`, so the pre-assigned register is never written and its reader finds garbage", f.loc))
        else:
            r.ok(f.fq, f"{f.loc} ZERO only for an unallocated value that is the constant 0")


def check_live_ins(idx: Index, rep: Report) -> None:
    r = rep.rule("C19.R5", "live-ins of a block: every operation's operands are added (also for region-holding ops), its results and the block arguments removed, nested blocks' live-ins included", floor=1)
    f = idx.func(RA, "_live_ins_per_block")
    cfg = CFG(f.node)
    blk, accp = f.node.args.args[0].arg, f.node.args.args[1].arg
    loops = [w for w in walk_local(f.node) if isinstance(w, ast.For) and unparse(w.iter) == f"reversed({blk}.ops)" and isinstance(w.target, ast.Name)]
    if len(loops) != 1:
        raise AnalysisError(f"{f.fq}: backward loop over the block's operations not found")
    w = loops[0]
    head = cfg.node_of(w)
    opv = w.target.id
    # the accumulated set: what the function returns
    rets = [n for n in walk_local(f.node) if isinstance(n, ast.Return) and isinstance(n.value, ast.Name)]
    if len(rets) != 1:
        raise AnalysisError(f"{f.fq}: `return <set>` not found")
    res = rets[0].value.id  # type: ignore[union-attr]
    upd = {cfg.node_of(c) for c in calls_in(w) if unparse(c) == f"{res}.update({opv}.operands)"}
    rem = {cfg.node_of(c) for c in calls_in(w) if unparse(c) == f"{res}.difference_update({opv}.results)"}
    problems = []
    starts = [m for m, lab in cfg.succ[head] if lab == "T"]
    for nodes, what in ((upd, "operands-not-added"), (rem, "results-not-removed")):
        if not nodes or any(m not in nodes and cfg.path_avoiding(m, head, lambda n: n.id in nodes, follow_exc=False) is not None for m in starts):
            problems.append(what)
    if upd and rem and not all(u in cfg.reachable(x) for u in upd for x in rem):
        problems.append("order")
    t = unparse(f.node)
    nested = [c for c in calls_in(w) if unparse(c.func) == f"{res}.update" and len(c.args) == 1 and isinstance(c.args[0], ast.Call) and unparse(c.args[0].func) == f.name and len(c.args[0].args) == 2 and unparse(c.args[0].args[1]) == accp]
    nested_ok = False
    for c in nested:
        inner = unparse(c.args[0].args[0])  # type: ignore[attr-defined]
        l_in = [x for x in walk_local(w) if isinstance(x, ast.For) and unparse(x.target) == inner and any(y is c for y in ast.walk(x))]
        if l_in and (m_ := re.fullmatch(r"(\w+)\.blocks", unparse(l_in[-1].iter))):
            l_out = [x for x in walk_local(w) if isinstance(x, ast.For) and unparse(x.target) == m_.group(1) and any(y is c for y in ast.walk(x))]
            if l_out and unparse(l_out[-1].iter) == f"{opv}.regions":
                nested_ok = True
        elif l_in:
            # one loop over a flattened iterable: (b for r in <op>.regions for b in r.blocks)
            try:
                ge = ast.parse(resolved_text(cfg, l_in[-1].iter, cfg.node_of(l_in[-1])), mode="eval").body
            except SyntaxError:
                ge = None
            if isinstance(ge, (ast.GeneratorExp, ast.ListComp)) and len(ge.generators) == 2 and not ge.generators[0].ifs and not ge.generators[1].ifs:
                g0, g1 = ge.generators
                if unparse(g0.iter) == f"{opv}.regions" and unparse(g1.iter) == f"{unparse(g0.target)}.blocks" and unparse(ge.elt) == unparse(g1.target):
                    nested_ok = True
    if not nested_ok and nested:
        raise AnalysisError(f"{f.fq}: the iteration that feeds the nested `{f.name}` call was not understood")
    if not nested_ok:
        problems.append("nested-blocks-ignored")
    if f"{res}.difference_update({blk}.args)" not in t:
        problems.append("block-args-not-removed")
    if problems:
        msg = {"operands-not-added": "a path through the loop body skips `res.update(op.operands)` (e.g. for operations that hold regions): operands of a nested loop are no longer live-ins of the enclosing block and get registers that are already in use",
               "results-not-removed": "results defined in the block are not removed", "order": "operands must be added after the results are removed", "nested-blocks-ignored": "live-ins of nested blocks are not included", "block-args-not-removed": "block arguments are not removed"}
        for p in problems:
            r.fail(f.fq, Finding("C19.R5", f.fq, p, msg[p], f.loc))
    else:
        r.ok(f.fq, f"{f.loc} per op: remove results, add operands, add nested live-ins; finally remove block args")


def check_pool_keys(idx: Index, rep: Report) -> None:
    """The per-pool tables of RegisterStack are keyed by `register_pool_key()` (shared by all widths of one physical
    register file on x86); looking one of them up under another key reads / updates a different, empty entry."""
    r = rep.rule("C19.R6", "every lookup in RegisterStack's per-pool tables (available / allocatable / reserved registers, next infinite index) uses the register's register_pool_key()", floor=8)
    cls = idx.cls(RS, "RegisterStack")
    TABLES = ("available_registers", "allocatable_registers", "reserved_registers", "next_infinite_indices")
    for ms in cls.methods.values():
        for m in (ms if isinstance(ms, list) else [ms]):
            cfg = None
            for n in walk_local(m.node):
                if isinstance(n, ast.Subscript) and isinstance(n.value, ast.Attribute) and n.value.attr in TABLES and unparse(n.value.value) == "self":
                    if cfg is None:
                        cfg = CFG(m.node)
                    try:
                        at = cfg.node_of(n)
                    except AnalysisError:
                        continue
                    k = resolved_text(cfg, n.slice, at)
                    inst = f"{m.fq}:{n.value.attr}[{unparse(n.slice)}]@{n.lineno}"
                    if re.fullmatch(r"[\w.]+\.register_pool_key\(\)", k):
                        r.ok(inst, None)
                    elif re.fullmatch(r"(type\()?\w+\)?(\.name|\.register_name(\.data)?|\.__name__|\.__class__)?", k):
                        r.fail(inst, Finding("C19.R6", m.fq, f"pool-key-mismatch:{n.value.attr}", f"`{unparse(n)}` looks the table up under `{k}`, not under the register's register_pool_key(): on targets where several register types share one pool (x86: 64/32/16/8-bit names of one register file) this is another (empty) entry, so the update is lost - e.g. an excluded register stays allocatable and is handed out again while a pre-assigned value lives in it", f"{RS}:{n.lineno}"))
                    else:
                        raise AnalysisError(f"{m.fq}: key `{k}` of `{unparse(n)}` not understood")


def check_stale_guard(idx: Index, rep: Report) -> None:
    """A value that was already replaced by its allocated twin must not be allocated again (its uses were moved).
    The guard `val in self.new_value_by_old_value` has to run before *every* allocation decision: in allocate_value
    itself, or - when it sits in the overridable hook new_type_for_value - before any non-None answer of each override."""
    from ..astutil import conjuncts

    r = rep.rule("C19.R7", "the 'already replaced' guard precedes every allocation decision: in ValueAllocator.allocate_value, or in every override of new_type_for_value before it answers", floor=2)
    av = idx.func(RA, "ValueAllocator.allocate_value")
    cfg = CFG(av.node)
    valp = av.node.args.args[1].arg
    calls = [c for c in calls_in(av.node) if call_attr(c) == "new_type_for_value"]
    if not calls:
        raise AnalysisError(f"{av.fq}: call of new_type_for_value not found")

    def guard_edge(c_: CFG, par: str):
        def est(a_: int, b_: int, lab) -> bool:
            e_ = c_.nodes[a_].ast
            if e_ is None or lab not in ("T", "F") or not isinstance(e_, ast.expr):
                return False
            for atom, truth in conjuncts(e_, lab == "T"):
                t_ = unparse(atom)
                if t_ == f"{par} in self.new_value_by_old_value" and not truth:
                    return True
                if t_ == f"{par} not in self.new_value_by_old_value" and truth:
                    return True
            return False
        return est

    est0 = guard_edge(cfg, valp)
    in_caller = all(cfg.path_avoiding(cfg.entry, cfg.node_of(c), lambda n: False, follow_exc=False, edge_ok=lambda a_, b_, lab: not est0(a_, b_, lab)) is None for c in calls)
    if in_caller:
        r.ok(av.fq, f"{av.loc} allocate_value returns for replaced values before asking new_type_for_value")
    hooks = [f for mi in idx.modules.values() for f in raw_funcs(mi) if f.name == "new_type_for_value" and f.cls is not None]
    if len(hooks) < 2:
        raise AnalysisError("new_type_for_value: base definition and RISC-V override not both found")
    for h in hooks:
        if in_caller:
            r.ok(h.fq, None)
            continue
        hc = CFG(h.node)
        par = h.node.args.args[1].arg
        est = guard_edge(hc, par)
        bad = None
        supers = {hc.node_of(c) for c in calls_in(h.node) if unparse(c.func) == "super().new_type_for_value"}
        for rt in [x for x in walk_local(h.node) if isinstance(x, ast.Return) and x.value is not None and not (isinstance(x.value, ast.Constant) and x.value.value is None)]:
            nr = hc.node_of(rt)
            if nr in supers:
                continue  # the answer is the parent's (guarded there)
            if hc.path_avoiding(hc.entry, nr, lambda n: n.id in supers, follow_exc=False, edge_ok=lambda a_, b_, lab: not est(a_, b_, lab)) is not None:
                bad = rt
                break
        if bad is None:
            r.ok(h.fq, f"{h.loc} every answer is given after the 'already replaced' test")
        else:
            r.fail(h.fq, Finding("C19.R7", h.fq, "stale-guard-bypassed", f"`{unparse(bad)}` answers with a register without `{par} in self.new_value_by_old_value` having been tested (the guard is not in allocate_value any more, and this override returns before reaching the parent's test): a value that was already replaced - e.g. a constant 0 first allocated together with a loop-carried value and still listed in an earlier loop's live-ins - is allocated a second time and its definition gets another register than its uses", f"{h.module.relpath}:{bad.lineno}"))


def check_register_scan(idx: Index, rep: Report) -> None:
    """The registers that are pre-assigned or excluded anywhere in the function are collected before allocation; the
    scan has to reach every nested operation (`region.walk()`).  A walk that does not descend into some operations
    (e.g. those with recursive memory effects, whose summary is None as soon as one nested op has no effect trait)
    misses registers that occur only inside them."""
    r = rep.rule("C19.R8", "all_used_registers / all_excluded_registers scan every nested operation of the region", floor=2)
    RAB = "xdsl/backend/register_allocatable.py"
    for q in ("RegisterAllocatableOperation.all_used_registers", "RegisterAllocatableOperation.all_excluded_registers"):
        f = idx.func(RAB, q)
        reg = f.raw_node.args.args[0].arg
        comps = [n for n in ast.walk(f.as_raw().node) if isinstance(n, (ast.SetComp, ast.GeneratorExp, ast.ListComp))]
        fors = [n for n in ast.walk(f.as_raw().node) if isinstance(n, ast.For)]
        iters = [g.iter for c in comps for g in c.generators[:1]] + [w.iter for w in fors[:1]]
        if not iters:
            raise AnalysisError(f"{f.fq}: scan of the region not found")
        it = iters[0]
        if unparse(it) == f"{reg}.walk()":
            r.ok(f.fq, f"{f.loc} iterates {reg}.walk()")
            continue
        if isinstance(it, ast.Call) and isinstance(it.func, (ast.Name, ast.Attribute)):
            hname = it.func.id if isinstance(it.func, ast.Name) else it.func.attr
            h = idx.try_func(RAB, hname)
            if h is None and f.cls is not None and f.cls.method(hname) is not None:
                h = f.cls.method(hname)
            if h is not None:
                pruned = [n for n in walk_local(h.as_raw().node) if isinstance(n, ast.If) and any(isinstance(y, (ast.YieldFrom, ast.For)) or (isinstance(y, ast.Call) and call_attr(y) in ("walk", hname, "extend")) for b_ in n.body + n.orelse for y in ast.walk(b_)) and re.search(r"has_trait|isinstance|get_effects|regions", unparse(n.test))]
                full = any(isinstance(n, ast.Call) and call_attr(n) == "walk" for n in ast.walk(h.as_raw().node)) and not pruned
                if pruned:
                    r.fail(f.fq, Finding("C19.R8", f.fq, f"pruned-scan:{hname}", f"`{unparse(it)}` descends into nested regions only under `{unparse(pruned[0].test)}`: registers pre-assigned or excluded only inside the operations that are skipped are not removed from the pool before allocation and are handed to other live values", f"{RAB}:{pruned[0].lineno}"))
                    continue
                if full:
                    r.ok(f.fq, f"{f.loc} iterates {unparse(it)} (a full walk)")
                    continue
        raise AnalysisError(f"{f.fq}: iteration `{unparse(it)}` not understood")


def check(idx: Index, rep: Report, tier: str) -> str:
    rep.run(check_frees, idx, rep)
    rep.run(check_stack, idx, rep)
    rep.run(check_exclusion, idx, rep)
    rep.run(check_zero, idx, rep)
    rep.run(check_live_ins, idx, rep)
    rep.run(check_pool_keys, idx, rep)
    rep.run(check_stale_guard, idx, rep)
    rep.run(check_register_scan, idx, rep)
    return (
        "Ownership / guard / ordering rules over the register allocator: frees target only values defined by the operation, "
        "the register stack never makes reserved or non-allocatable registers available and reservations do not change "
        "availability, both allocate_func implementations exclude used and excluded registers first, ZERO only for constant 0, "
        "live-ins include the operands of every operation. Interference freedom on concrete programs is not decided."
    )
