"""C13 — DCE removes only unobservable code: required conjuncts of the removability predicate,
guarded erase sites, liveness fixpoint shape, notification before erase, entry block kept."""

from __future__ import annotations

import ast
import re

from ..astutil import alpha_same, call_attr, call_name, calls_in, dewalrus, guard_facts, unparse, walk_local, text_facts
from ..cfg import CFG
from ..report import Finding, Report
from ..srcindex import AnalysisError, Index, raw_funcs

DCE = "xdsl/transforms/dead_code_elimination.py"
TRAITS = "xdsl/traits.py"
PR = "xdsl/pattern_rewriter.py"
CSE = "xdsl/transforms/common_subexpression_elimination.py"
PO = "xdsl/ir/post_order.py"


def conj_of(e: ast.AST) -> list[ast.AST]:
    if isinstance(e, ast.BoolOp) and isinstance(e.op, ast.And):
        out = []
        for v in e.values:
            out.extend(conj_of(v))
        return out
    if isinstance(e, ast.UnaryOp) and isinstance(e.op, ast.Not) and isinstance(e.operand, ast.BoolOp) and isinstance(e.operand.op, ast.Or):
        # De Morgan: not (a or b)  ==  not a and not b
        out = []
        for v in e.operand.values:
            nv = v.operand if isinstance(v, ast.UnaryOp) and isinstance(v.op, ast.Not) else ast.UnaryOp(op=ast.Not(), operand=v)
            out.extend(conj_of(nv))
        return out
    return [e]


def disj_of(e: ast.AST) -> list[ast.AST]:
    if isinstance(e, ast.BoolOp) and isinstance(e.op, ast.Or):
        out = []
        for v in e.values:
            out.extend(disj_of(v))
        return out
    return [e]


def single_return(f) -> ast.AST:
    rets = [n for n in walk_local(f.node) if isinstance(n, ast.Return)]
    if len(rets) != 1 or rets[0].value is None:
        raise AnalysisError(f"{f.fq}: expected a single `return <expr>` (predicate shape changed)")
    return rets[0].value


def _negated_text(c: ast.AST) -> str:
    if isinstance(c, ast.UnaryOp) and isinstance(c.op, ast.Not):
        return unparse(c.operand)
    if isinstance(c, ast.Compare) and len(c.ops) == 1:
        flip = {ast.Is: ast.IsNot, ast.IsNot: ast.Is, ast.Eq: ast.NotEq, ast.NotEq: ast.Eq, ast.In: ast.NotIn, ast.NotIn: ast.In}.get(type(c.ops[0]))
        if flip is not None:
            return unparse(ast.Compare(left=c.left, ops=[flip()], comparators=c.comparators))
    return f"not {unparse(c)}"


def _loop_conjuncts(fn: ast.AST, rt: ast.Return) -> set[str]:
    from ..astutil import parent_map

    pm = parent_map(fn)
    out: set[str] = set()
    node: ast.AST = rt
    while id(node) in pm:
        par = pm[id(node)]
        for fld in ("body", "orelse"):
            blk = getattr(par, fld, None)
            if isinstance(blk, list) and node in blk:
                for prev in blk[: blk.index(node)]:
                    if isinstance(prev, ast.For) and not prev.orelse and len(prev.body) == 1 and isinstance(prev.body[0], ast.If) and not prev.body[0].orelse:
                        iff = prev.body[0]
                        if len(iff.body) == 1 and isinstance(iff.body[0], ast.Return) and isinstance(iff.body[0].value, ast.Constant) and iff.body[0].value.value is False:
                            out.add(f"all(({_negated_text(iff.test)} for {unparse(prev.target)} in {unparse(prev.iter)}))")
        node = par
    return out


def accept_conjuncts(f) -> list[str]:
    """Conditions that hold whenever the boolean function returns a true value: for every accepting return the guard
    facts of the return plus the conjuncts of the returned expression; the result is the intersection over all accepting
    returns (texts, negations normalised to `not <expr>`).  Works for `return a and b and c` as well as for guard
    clauses (`if not a: return False ... return c`)."""
    sets: list[set[str]] = []
    for rt in [n for n in walk_local(f.node) if isinstance(n, ast.Return)]:
        v = rt.value
        if v is None or (isinstance(v, ast.Constant) and v.value in (False, None)):
            continue
        cs: set[str] = set()
        for t, pol in guard_facts(f.node, rt):
            if pol:
                for c in conj_of(t):
                    cs.add(unparse(c))
            else:
                if isinstance(t, ast.UnaryOp) and isinstance(t.op, ast.Not):
                    for c in conj_of(t.operand):
                        cs.add(unparse(c))
                elif isinstance(t, ast.BoolOp) and isinstance(t.op, ast.Or):
                    for d in disj_of(t):
                        cs.add(unparse(d.operand) if isinstance(d, ast.UnaryOp) and isinstance(d.op, ast.Not) else f"not {unparse(d)}")
                elif isinstance(t, ast.Compare) and len(t.ops) == 1 and isinstance(t.ops[0], (ast.Is, ast.IsNot)):
                    flipped = ast.Compare(left=t.left, ops=[ast.IsNot() if isinstance(t.ops[0], ast.Is) else ast.Is()], comparators=t.comparators)
                    cs.add(unparse(flipped))
                else:
                    cs.add(f"not {unparse(t)}")
        if not (isinstance(v, ast.Constant) and v.value is True):
            for c in conj_of(v):
                cs.add(unparse(c))
        # universally quantified guard clauses: an earlier `for x in S: if C(x): return False` on the way to this
        # return contributes `all((not C(x) for x in S))`
        cs |= _loop_conjuncts(f.node, rt)
        sets.append(cs)
    if not sets:
        raise AnalysisError(f"{f.fq}: no accepting return (predicate shape changed)")
    out = set.intersection(*sets)
    return sorted(out)


def check_predicate(idx: Index, rep: Report) -> None:
    r = rep.rule("C13.R1", "the removability predicate is the conjunction: all results unused ∧ not a terminator ∧ not a symbol ∧ effects known ∧ every effect is a read or an allocation of a value defined inside the op", floor=10)

    pending: dict[str, list] = {}  # function -> [(f, conjs, pattern, key, why)]

    def req(f, conjs: list[str], pattern: str, key: str, why: str) -> None:
        pending.setdefault(f.fq, []).append((f, conjs, pattern, key, why))

    def flush() -> None:
        """A required conjunct is reported missing only when every conjunct that IS there was understood (matches one
        of the patterns this rule knows for the function): an unknown conjunct may well imply the missing one."""
        for fq, items in pending.items():
            f0, conjs0 = items[0][0], items[0][1]
            known = [p_ for _, _, p_, _, _ in items] + EXTRA_KNOWN
            unknown = [c for c in conjs0 if not any(re.fullmatch(p_, c) for p_ in known)]
            for f, conjs, pattern, key, why in items:
                inst = f"{f.fq}:{key}"
                hit = next((c for c in conjs if re.fullmatch(pattern, c)), None)
                if hit is not None:
                    r.ok(inst, f"{f.loc} conjunct `{hit[:70]}`")
                elif unknown:
                    raise AnalysisError(f"{f.fq}: the conjunct `{key}` was not found, and the predicate contains conjunct(s) this rule does not understand: {[u[:60] for u in unknown]}")
                else:
                    r.fail(inst, Finding("C13.R1", f.fq, f"missing-conjunct:{key}", f"the conjunct `{key}` is missing from the predicate ({why}); found conjuncts: {[c[:50] for c in conjs]}", f.loc))
        pending.clear()

    EXTRA_KNOWN = [r"all\(\(.*\)\)", r"True"]

    f = idx.func(DCE, "is_trivially_dead")
    op = f.node.args.args[0].arg
    conjs = accept_conjuncts(f)
    req(f, conjs, rf"all\(\((\w+)\.first_use is None for \1 in {op}\.results\)\)|all\(\(not (\w+)\.uses for \2 in {op}\.results\)\)|not any\(\((\w+)\.uses for \3 in {op}\.results\)\)", "all-results-unused", "an operation whose result is used would be erased")
    req(f, conjs, rf"would_be_trivially_dead\({op}\)", "would_be_trivially_dead", "terminators / symbols / effectful ops would be erased")

    f = idx.func(DCE, "would_be_trivially_dead")
    op = f.node.args.args[0].arg
    conjs = accept_conjuncts(f)
    req(f, conjs, rf"not {op}\.has_trait\(IsTerminator(\(\))?(, value_if_unregistered=False)?\)", "not-terminator", "a terminator would be removed")
    req(f, conjs, rf"not {op}\.has_trait\(SymbolOpInterface(\(\))?(, value_if_unregistered=False)?\)", "not-symbol", "a symbol (function, global) without SSA uses would be removed")
    req(f, conjs, rf"result_only_effects\({op}\)", "result-only-effects", "operations with observable effects would be removed")

    f = idx.func(DCE, "result_only_effects").as_raw()  # helper predicates are analysed through their alternatives, not inlined
    op = f.node.args.args[0].arg
    conjs = accept_conjuncts(f)
    eff_assign = [s for s in f.node.body if isinstance(s, ast.Assign) and unparse(s.value) == f"get_effects({op})"]
    if len(eff_assign) != 1:
        raise AnalysisError(f"{f.fq}: `effects = get_effects(op)` not found")
    ev = unparse(eff_assign[0].targets[0])
    req(f, conjs, rf"{ev} is not None", "effects-known", "unknown effects (None) must mean 'not removable'")
    alls = []
    for c in conjs:
        try:
            e_ = ast.parse(c, mode="eval").body
        except SyntaxError:
            continue
        if isinstance(e_, ast.Call) and call_attr(e_) == "all" and e_.args and isinstance(e_.args[0], ast.GeneratorExp) and unparse(e_.args[0].generators[0].iter) == ev:
            alls.append(e_)
    if len(alls) != 1:
        r.fail(f.fq + ":effects-all", Finding("C13.R1", f.fq, "missing-conjunct:every-effect", "the predicate no longer quantifies over every effect of the operation", f.loc))
    else:
        g = alls[0].args[0]
        e = unparse(g.generators[0].target)
        # the per-effect test: an expression, or a call of a module-level predicate whose accepting alternatives are analysed
        alts_sets: list[set[str]]
        helper = None
        if isinstance(g.elt, ast.Call) and isinstance(g.elt.func, ast.Name) and g.elt.func.id in f.module.functions:
            helper = f.module.functions[g.elt.func.id].as_raw()
            hp = [a_.arg for a_ in helper.node.args.args]
            actual = [unparse(a_) for a_ in g.elt.args]
            ren = dict(zip(hp, actual))
            alts_sets = []
            for rt in [n for n in walk_local(helper.node) if isinstance(n, ast.Return)]:
                v = rt.value
                if v is None or (isinstance(v, ast.Constant) and v.value in (False, None)):
                    continue
                cs = set()
                for t, pol in guard_facts(helper.node, rt):
                    cs.add(unparse(t) if pol else _negated_text(t))
                if not (isinstance(v, ast.Constant) and v.value is True):
                    cs |= {unparse(c_) for c_ in conj_of(v)}
                # resolve single-assignment locals (allocated = effect.value) and rename parameters to the actuals
                hcfg = CFG(helper.node)
                from ..dataflow import resolved_text

                res = set()
                for c_ in cs:
                    try:
                        n_ = ast.parse(c_, mode="eval").body
                        t_ = c_
                        for nm_ in {x.id for x in ast.walk(n_) if isinstance(x, ast.Name)}:
                            rd = [v_ for _, v_ in __import__("xsa.dataflow", fromlist=["reaching_defs"]).reaching_defs(hcfg, nm_, hcfg.node_of(rt)) if v_ is not None]
                            if len(rd) == 1 and nm_ not in hp:
                                t_ = re.sub(rf"\b{nm_}\b", unparse(rd[0]), t_)
                        for k_, v_ in ren.items():
                            t_ = re.sub(rf"\b{k_}\b", v_, t_)
                        res.add(t_)
                    except SyntaxError:
                        res.add(c_)
                alts_sets.append(res)
        else:
            alts_sets = [{unparse(c_) for c_ in conj_of(a_)} for a_ in disj_of(g.elt)]
        READ = {f"{e}.kind == MemoryEffectKind.READ", f"{e}.kind is MemoryEffectKind.READ"}

        def is_read(cs: set[str]) -> bool:
            return bool(cs & READ) and not any("ALLOC" in c_ and not c_.startswith("not ") and "!=" not in c_ for c_ in cs)

        def is_alloc(cs: set[str]) -> bool:
            pos = {c_ for c_ in cs if not c_.startswith("not ") and "!= MemoryEffectKind.READ" not in c_}
            return (
                any(re.fullmatch(rf"{e}\.kind (==|is) MemoryEffectKind\.ALLOC", c_) for c_ in pos)
                and any(re.fullmatch(rf"isinstance\(\(?(\w+ := )?{e}\.value\)?, SSAValue\)", c_) for c_ in pos)
                and any(re.fullmatch(rf"{op}\.is_ancestor\((\w+|{e}\.value)\.owner\)", c_) for c_ in pos)
            )

        reads = [cs for cs in alts_sets if is_read(cs)]
        allocs = [cs for cs in alts_sets if is_alloc(cs)]
        others = [cs for cs in alts_sets if not is_read(cs) and not is_alloc(cs)]
        if reads and allocs and not others:
            r.ok(f.fq + ":effects-all", f"{f.loc} every effect: READ or (ALLOC of an SSA value owned inside the op)" + (f" via {helper.name}" if helper else ""))
        else:
            r.fail(f.fq + ":effects-all", Finding("C13.R1", f.fq, "effect-alternatives", f"the per-effect test `{unparse(g.elt)[:120]}` must admit exactly READ, or ALLOC of an SSA value whose owner is inside the operation; accepting alternatives found: {[sorted(x)[:4] for x in alts_sets][:4]}", f.loc))

    f = idx.func(TRAITS, "get_effects")
    cfg = CFG(f.node)
    rets = [n for n in walk_local(f.node) if isinstance(n, ast.Return)]
    none_rets = [n for n in rets if isinstance(n.value, ast.Constant) and n.value.value is None]
    facts_all = [text_facts(f.node, n) for n in none_rets]
    ifn = {s_.targets[0].id for s_ in walk_local(f.node) if isinstance(s_, ast.Assign) and len(s_.targets) == 1 and isinstance(s_.targets[0], ast.Name) and isinstance(s_.value, ast.Call) and call_attr(s_.value) == "get_traits_of_type"}
    ifr = "|".join(sorted(re.escape(x) for x in ifn | {"effect_interfaces"}))
    no_iface = any(any(re.fullmatch(rf"(?:{ifr})|len\((?:{ifr})\) == 0", t) and p is False or re.fullmatch(rf"not (?:{ifr})", t) and p for t, p in fs) for fs in facts_all)
    inner_none = any(any(re.fullmatch(r"\w+ is None", dewalrus(t)) and p for t, p in fs) for fs in facts_all)
    if no_iface:
        r.ok(f.fq + ":no-interface", f"{f.loc} no MemoryEffect trait -> None (unknown)")
    else:
        r.fail(f.fq + ":no-interface", Finding("C13.R1", f.fq, "unknown-effects-as-known", "an operation without any MemoryEffect trait must yield None (unknown effects), not an empty effect set", f.loc))
    if inner_none:
        r.ok(f.fq + ":trait-none", f"{f.loc} a trait answering None -> None")
    else:
        r.fail(f.fq + ":trait-none", Finding("C13.R1", f.fq, "unknown-effects-as-known", "a MemoryEffect trait that answers None (unknown) must make get_effects return None", f.loc))
    # every trait's effects are accumulated
    upd = [c for c in calls_in(f.node) if unparse(c.func).endswith(".update")]
    loops = [w for w in walk_local(f.node) if isinstance(w, ast.For) and "get_traits_of_type(MemoryEffect)" in unparse(w.iter) or isinstance(w, ast.For) and unparse(w.iter) == "effect_interfaces"]
    if upd and loops:
        r.ok(f.fq + ":union", f"{f.loc} effects of all MemoryEffect traits are united")
    else:
        r.fail(f.fq + ":union", Finding("C13.R1", f.fq, "effects-not-united", "effects of all MemoryEffect traits must be accumulated", f.loc))
    flush()


def _guarded(f, call: ast.Call, pats: list[str]) -> list[str]:
    from ..astutil import quant_canon

    facts = text_facts(f.node, call)
    from ..astutil import loop_quant_facts

    qfacts = {qc for t, pol in facts if (qc := quant_canon(t, pol)) is not None} | loop_quant_facts(f.node, call)
    missing = []
    for pat in pats:
        want_pol = not pat.startswith("!")
        p_ = pat.lstrip("!")
        if any(re.fullmatch(p_, t) and pol == want_pol for t, pol in facts):
            continue
        # the same quantified fact in another spelling (all(not P) / not any(P), other bound variable)
        alt = None
        for cand in re.split(r"(?<!\\)\|", p_):
            try:
                from ..astutil import norm_fact as _nf13, norm_facts as _nfs13

                plain0 = re.sub(r"\\(.)", r"\1", cand)
                if _nf13(plain0, want_pol) in _nfs13(facts):
                    alt = plain0
            except Exception:
                pass
            plain = re.sub(r"\\(.)", r"\1", cand)
            qc = quant_canon(plain, want_pol)
            if qc is not None and qc in qfacts:
                alt = qc
        if alt is None:
            missing.append(pat)
    return missing


def check_erase_sites(idx: Index, rep: Report) -> None:
    r = rep.rule("C13.R2", "every erase site of the DCE clients is control-dependent on the removability predicate or on liveness computed from it", floor=5)
    sites = [
        (DCE, "RemoveUnusedOperations.match_and_rewrite", r"rewriter\.erase", [r"is_trivially_dead\(op\)"]),
        (PR, "GreedyRewritePatternApplier.match_and_rewrite", r"rewriter\.erase", [r"is_trivially_dead\(op\)", r"self\.dce_enabled"]),
        # {0} stands for the first argument of the erase call (the erased operation / block), whatever it is called
        (DCE, "LiveSet.delete_dead", r"\w+\.erase_op", [r"!self\.is_live\({0}\)"]),
        (DCE, "LiveSet.delete_dead", r"\w+\.erase_block", [r"!any\(\(self\.is_live\(op\) for op in {0}\.ops\)\)", r"{0} != \w+|{0} is not \w+"]),
        (CSE, "CSEDriver._simplify_operation", r"self\._mark_erasure", [r"is_trivially_dead\(op\)"]),
    ]
    for mod, q, callpat, guards in sites:
        f = idx.func(mod, q)
        cs = [c for c in calls_in(f.node) if re.fullmatch(callpat, unparse(c.func))]
        if not cs:
            raise AnalysisError(f"{f.fq}: erase site `{callpat}` not found")
        for c in cs:
            inst = f"{f.fq}:{unparse(c.func)}"
            a0 = re.escape(unparse(c.args[0])) if c.args else ""
            miss = _guarded(f, c, [g_.replace("{0}", a0) for g_ in guards])
            if miss:
                r.fail(inst, Finding("C13.R2", f.fq, f"unguarded-erase:{unparse(c.func)}", f"`{unparse(c)[:80]}` is not control-dependent on {miss}", f"{f.module.relpath}:{c.lineno}"))
            else:
                r.ok(inst, f"{f.module.relpath}:{c.lineno} `{unparse(c.func)}` under {guards}")
    # CSE replace-and-delete: marks for erasure only when no uses remain
    f = idx.func(CSE, "CSEDriver._replace_and_delete")
    cs = [c for c in calls_in(f.node) if unparse(c.func) == "self._mark_erasure"]
    for c in cs:
        miss = _guarded(f, c, [r"all\(\(not r\.uses for r in op\.results\)\)"])
        (r.ok(f.fq, f"{f.loc} marked only when all results are unused") if not miss else r.fail(f.fq, Finding("C13.R2", f.fq, "unguarded-erase:_mark_erasure", "an operation replaced by CSE is marked for erasure although results may still be used", f.loc)))
    # all erasures of the file go through these sites
    dce_mod = idx.module(DCE)
    n_er = 0
    for fn in raw_funcs(dce_mod):
        for c in calls_in(fn.node):
            if call_attr(c) in ("erase", "erase_op", "erase_block", "detach_op", "detach_block") and isinstance(c.func, ast.Attribute):
                n_er += 1
                if (fn.qualname, call_attr(c)) not in {("RemoveUnusedOperations.match_and_rewrite", "erase"), ("LiveSet.delete_dead", "erase_op"), ("LiveSet.delete_dead", "erase_block")}:
                    r.fail(f"{fn.fq}:{unparse(c.func)}", Finding("C13.R2", fn.fq, f"new-erase-site:{unparse(c.func)}", f"`{unparse(c)[:80]}` is an erase site the rule has not reviewed", f"{dce_mod.relpath}:{c.lineno}"))
    if n_er < 3:
        raise AnalysisError("erase sites of dead_code_elimination.py not found")


def check_liveness(idx: Index, rep: Report) -> None:
    r = rep.rule("C13.R3", "liveness: an op is live iff not removable-if-unused or some user is live; nested regions are (re)visited on every call; sweeps repeat until nothing changed; set_live raises `changed`", floor=6)
    f = idx.func(DCE, "LiveSet.propagate_op_liveness")
    cfg = CFG(f.node)
    op = f.node.args.args[1].arg
    loops = [w for w in walk_local(f.node) if isinstance(w, ast.For) and unparse(w.iter) == f"{op}.regions" and any(unparse(c.func) == "self.propagate_region_liveness" for c in calls_in(w))]
    if not loops:
        r.fail(f.fq + ":regions", Finding("C13.R3", f.fq, "regions-not-visited", "nested regions are not propagated", f.loc))
    else:
        head = cfg.node_of(loops[0])
        p = cfg.path_avoiding(cfg.entry, cfg.exit, lambda n: n.id == head, follow_exc=False)
        if p is not None:
            r.fail(f.fq + ":regions", Finding("C13.R3", f.fq, "regions-skipped", "a path returns without re-propagating liveness into the nested regions (an already-live op with a nested graph region is swept only once: a use-before-def inside it leaves the defining op dead): " + " -> ".join(cfg.describe(p)[-3:]), f.loc))
        else:
            r.ok(f.fq + ":regions", f"{f.loc} nested regions propagated on every call")
    sets = [c for c in calls_in(f.node) if unparse(c.func) == "self.set_live"]
    conds = []
    from ..astutil import parent_map as _pmap

    pm0 = _pmap(f.node)
    for c in sets:
        facts_c = [(unparse(t), p) for t, p in guard_facts(f.node, c) if "is_live(op)" not in unparse(t) or "use" in unparse(t)]
        # a call inside `for result in op.results: for use in result.uses: if self.is_live(use.operation):` happens iff
        # some user is live: the same condition as the any(...) form
        encl = []
        n_ = c
        while id(n_) in pm0:
            n_ = pm0[id(n_)]
            if isinstance(n_, ast.For):
                encl.append((unparse(n_.target), unparse(n_.iter)))
        if len(encl) == 2 and encl[1][1] == f"{op}.results" and encl[0][1] == f"{encl[1][0]}.uses":
            live_t = f"self.is_live({encl[0][0]}.operation)"
            if (live_t, True) in facts_c:
                facts_c = [(t_, p_) for t_, p_ in facts_c if t_ != live_t] + [(f"any((self.is_live(use.operation) for result in {op}.results for use in result.uses))", True)]
        conds.append(sorted(facts_c))
    want1 = [(f"would_be_trivially_dead({op})", False)]
    want2_pat = rf"any\(\(self\.is_live\(use\.operation\) for result in {op}\.results for use in result\.uses\)\)"

    def user_live(t_: str) -> bool:
        """`t_` states that some user of a result of op is live: the any(...) form, or a private predicate method whose
        body returns True exactly under self.is_live(<use>.operation) inside loops over op.results / result.uses."""
        if re.fullmatch(want2_pat, t_) or alpha_same(ast.parse(t_, mode="eval").body, f"any((self.is_live(use.operation) for result in {op}.results for use in result.uses))"):
            return True
        m_ = re.fullmatch(rf"self\.(_\w+)\({op}\)", t_)
        if not m_ or f.cls is None:
            return False
        h = f.cls.method(m_.group(1))
        if h is None:
            return False
        hn = h.as_raw().node
        hop = hn.args.args[1].arg
        rets = [x for x in walk_local(hn) if isinstance(x, ast.Return)]
        trues = [x for x in rets if isinstance(x.value, ast.Constant) and x.value.value is True]
        falses = [x for x in rets if isinstance(x.value, ast.Constant) and x.value.value is False]
        if len(trues) != 1 or len(falses) != 1 or len(rets) != 2 or hn.body[-1] is not falses[0]:
            return False
        from ..astutil import parent_map

        pm_ = parent_map(hn)
        iters = []
        n_ = trues[0]
        while id(n_) in pm_:
            n_ = pm_[id(n_)]
            if isinstance(n_, ast.For):
                iters.append((unparse(n_.target), unparse(n_.iter)))
        gf = [(unparse(a_), p_) for a_, p_ in guard_facts(hn, trues[0])]
        if len(iters) != 2 or len(gf) != 1 or not gf[0][1]:
            return False
        (u_, uit), (r_, rit) = iters
        return rit == f"{hop}.results" and uit == f"{r_}.uses" and gf[0][0] == f"self.is_live({u_}.operation)"

    has1 = any(c == want1 for c in conds)
    has2 = any(any(user_live(t) and p for t, p in c) and (f"would_be_trivially_dead({op})", True) in c for c in conds)
    # one call under a disjunction of the two conditions
    disj = False
    if len(sets) == 1 and len(conds[0]) == 1 and conds[0][0][1]:
        try:
            e_ = ast.parse(conds[0][0][0], mode="eval").body
        except SyntaxError:
            e_ = None
        if isinstance(e_, ast.BoolOp) and isinstance(e_.op, ast.Or) and len(e_.values) == 2:
            ts = [unparse(v_) for v_ in e_.values]
            disj = f"not would_be_trivially_dead({op})" in ts and any(user_live(t_) for t_ in ts)
    if (has1 and has2 and len(sets) == 2) or disj:
        r.ok(f.fq + ":rule", f"{f.loc} live iff not would_be_trivially_dead(op) or a user is live")
    else:
        r.fail(f.fq + ":rule", Finding("C13.R3", f.fq, "liveness-rule", f"set_live conditions are {conds}; expected `not would_be_trivially_dead(op)` and `any user live`", f.loc))
    f = idx.func(DCE, "LiveSet.set_live")
    op = f.node.args.args[1].arg
    from ..paths import enum_paths

    bad_sl = []
    cases = set()
    for pth in enum_paths(f.node):
        nf = {(t_.replace(f"self.is_live({op})", f"{op} in self._live_ops"), p_) for t_, p_ in pth.nfacts()}
        live = next((p_ for t_, p_ in nf if t_ == f"{op} in self._live_ops"), None)
        effs = [unparse(e_) for e_ in pth.effects if isinstance(e_, ast.AST)]
        marks = "self.changed = True" in effs
        adds = f"self._live_ops.add({op})" in effs
        if live is None:
            bad_sl.append("a path does not test whether the op is already live")
        elif live:
            cases.add("already")
            if marks:
                bad_sl.append("`changed` is raised for an op that was already live (the fixpoint loop never stops)")
        else:
            cases.add("new")
            if not marks or not adds:
                bad_sl.append("a newly live op is not both added and signalled through `changed` (the fixpoint loop stops early)")
    if not bad_sl and cases == {"already", "new"}:
        r.ok(f.fq, f"{f.loc} changed raised iff newly live")
    else:
        r.fail(f.fq, Finding("C13.R3", f.fq, "set-live", "set_live must add the op and raise `changed` exactly when it was not live yet (otherwise the fixpoint loop stops early or never): " + "; ".join(bad_sl or [f"cases {sorted(cases)}"]), f.loc))
    f = idx.func(DCE, "LiveSet.is_live")
    if [unparse(s) for s in f.node.body] == [f"return {f.node.args.args[1].arg} in self._live_ops"]:
        r.ok(f.fq)
    else:
        r.fail(f.fq, Finding("C13.R3", f.fq, "is-live", "is_live must be membership in _live_ops", f.loc))
    f = idx.func(DCE, "region_dce")
    ws = [w for w in walk_local(f.node) if isinstance(w, ast.While)]
    ok = False
    # the local holding the LiveSet, whatever it is called
    lsn = {s_.targets[0].id for s_ in walk_local(f.node) if isinstance(s_, ast.Assign) and len(s_.targets) == 1 and isinstance(s_.targets[0], ast.Name) and isinstance(s_.value, ast.Call) and unparse(s_.value.func) == "LiveSet"}
    ls = next(iter(lsn)) if len(lsn) == 1 else "live_set"
    if len(ws) == 1:
        bt = [unparse(s_) for s_ in ws[0].body]
        reg = f.node.args.args[0].arg
        core = [f"{ls}.changed = False", f"{ls}.propagate_region_liveness({reg})"]
        if unparse(ws[0].test) == f"{ls}.changed" and bt == core:
            ok = True
        elif unparse(ws[0].test) == "True" and bt[:2] == core and bt[2:] in ([f"if not {ls}.changed:\n    break"], [f"if {ls}.changed:\n    continue\nbreak"]):
            ok = True
    if ok:
        r.ok(f.fq + ":fixpoint", f"{f.loc} while changed: changed=False; propagate")
    else:
        r.fail(f.fq + ":fixpoint", Finding("C13.R3", f.fq, "fixpoint-loop", "liveness must be re-propagated until a sweep changes nothing", f.loc))
    cfg = CFG(f.node)
    dd = [c for c in calls_in(f.node) if unparse(c.func) == f"{ls}.delete_dead"]
    if len(dd) == 1 and ws and cfg.path_avoiding(cfg.entry, cfg.node_of(dd[0]), lambda n: n.id == cfg.node_of(ws[0].test)) is None and unparse(dd[0].args[0]) == f.node.args.args[0].arg:
        r.ok(f.fq + ":delete-after", f"{f.loc} deletion only after the fixpoint")
    else:
        r.fail(f.fq + ":delete-after", Finding("C13.R3", f.fq, "delete-before-fixpoint", "delete_dead must run once, after the liveness fixpoint, on the same region", f.loc))
    init = idx.cls(DCE, "LiveSet")
    d = {n: (unparse(v) if v is not None else None) for n, _, v in init.ann_fields()}
    if d.get("changed") == "field(default=True)":
        r.ok(init.fq + ":first-sweep")
    else:
        r.fail(init.fq + ":first-sweep", Finding("C13.R3", init.fq, "first-sweep", "LiveSet.changed must start True so that the first sweep happens", init.loc))
    # reachability of blocks: region sweep iterates PostOrderIterator(first); successors followed for possibly-unregistered terminators
    f = idx.func(DCE, "LiveSet.propagate_region_liveness")
    rcfg = CFG(f.node)
    from ..dataflow import resolved_text as _rtx

    loops = [w for w in walk_local(f.node) if isinstance(w, ast.For) and _rtx(rcfg, w.iter, rcfg.node_of(w)) == f"PostOrderIterator({f.node.args.args[1].arg}.first_block)"]
    firsts = loops
    if loops and firsts:
        r.ok(f.fq, f"{f.loc} sweeps blocks reachable from the entry block")
    else:
        r.fail(f.fq, Finding("C13.R3", f.fq, "reachability-source", "liveness must sweep the blocks reachable from region.first_block", f.loc))
    g = idx.func(PO, "PostOrderIterator.__next__")
    for c in calls_in(g.node):
        if call_attr(c) == "has_trait" and "IsTerminator" in unparse(c):
            kw = {k.arg: unparse(k.value) for k in c.keywords}
            if kw.get("value_if_unregistered") == "False":
                r.fail(g.fq + ":unregistered", Finding("C13.R3", g.fq, "unregistered-terminator-ignored", f"`{unparse(c)}`: successors of an unregistered (possibly terminator) last op are not followed, so blocks reachable only through it are treated as unreachable and deleted", g.loc))
            else:
                r.ok(g.fq + ":unregistered", f"{g.loc} successors followed unless the last op is known not to be a terminator")


def check_notify_and_entry(idx: Index, rep: Report) -> None:
    r = rep.rule("C13.R4", "erased operations are announced to the listener before erasure; only non-entry blocks are erased; live ops' regions are descended", floor=3)
    f = idx.func(DCE, "LiveSet.delete_dead")
    cfg = CFG(f.node)
    p_region, p_listener = f.node.args.args[1].arg, f.node.args.args[2].arg
    er = [c for c in calls_in(f.node) if call_attr(c) == "erase_op" and c.args]
    no = [c for c in calls_in(f.node) if unparse(c.func) == f"{p_listener}.handle_operation_removal"]
    ok = bool(er) and bool(no)
    if ok:
        for e in er:
            ne = cfg.node_of(e)
            nn = {cfg.node_of(x) for x in no}
            # every path to the erase passes either a notification or the `listener is not None` test on its False edge
            tests = {cfg.node_of(t) for t in walk_local(f.node) if isinstance(t, ast.If) and unparse(t.test) == f"{p_listener} is not None" for t in [t.test]}
            p = cfg.path_avoiding(cfg.entry, ne, lambda n: n.id in nn | tests, follow_exc=False)
            if p is not None or not tests:
                ok = False
            if unparse(no[0].args[0]) != unparse(e.args[0]):
                ok = False
    (r.ok(f.fq + ":notify", f"{f.loc} handle_operation_removal(op) before block.erase_op(op)") if ok else r.fail(f.fq + ":notify", Finding("C13.R4", f.fq, "erase-unannounced", "an operation is erased by region_dce without the listener being told first (the rewrite worklist keeps a dangling op)", f.loc)))
    firsts = [s for s in f.node.body if isinstance(s, ast.Assign) and len(s.targets) == 1 and isinstance(s.targets[0], ast.Name) and unparse(s.value) == f"{p_region}.first_block"]
    if firsts:
        # the block erase must exclude exactly that local
        fn_ = firsts[0].targets[0].id
        eb = [c for c in calls_in(f.node) if call_attr(c) == "erase_block" and c.args]
        if not all(_guarded(f, c, [rf"{re.escape(unparse(c.args[0]))} != {fn_}|{re.escape(unparse(c.args[0]))} is not {fn_}"]) == [] for c in eb):
            firsts = []
    (r.ok(f.fq + ":entry", f"{f.loc} entry block = region.first_block is never erased") if firsts else r.fail(f.fq + ":entry", Finding("C13.R4", f.fq, "entry-block", "`first` is not region.first_block: the entry block could be erased", f.loc)))
    rec = [c for c in calls_in(f.node) if unparse(c.func) == "self.delete_dead"]
    def _descends_live(c: ast.Call) -> bool:
        # the region handed to the recursive call comes from `for r in <op>.regions` and <op> is known to be live there
        for w in walk_local(f.node):
            if isinstance(w, ast.For) and any(x is c for x in ast.walk(w)) and c.args and unparse(w.target) == unparse(c.args[0]):
                m_ = re.fullmatch(r"(\w+)\.regions", unparse(w.iter))
                if m_ and (f"self.is_live({m_.group(1)})", True) in text_facts(f.node, c):
                    return True
        return False

    ok = bool(rec) and all(_descends_live(c) for c in rec)
    (r.ok(f.fq + ":descend", f"{f.loc} regions of live ops are cleaned recursively") if ok else r.fail(f.fq + ":descend", Finding("C13.R4", f.fq, "no-descent", "regions of live operations are not cleaned (dead code remains after the pass)", f.loc)))
    ch = [s for s in walk_local(f.node) if isinstance(s, ast.Assign) and unparse(s) == "self.changed = True"]
    if len(ch) >= 2:
        r.ok(f.fq + ":changed", f"{f.loc} deletions raise `changed` (returned by region_dce)")
    else:
        r.fail(f.fq + ":changed", Finding("C13.R4", f.fq, "change-unreported", "deletions must raise `changed` so that region_dce reports the modification", f.loc))


def check_recursive_effects(idx: Index, rep: Report) -> None:
    """The effects of an op with RecursiveMemoryEffect are those of ALL nested operations (terminators included:
    scf.reduce is a terminator that holds effectful regions): no nested op may be skipped, an unknown nested effect
    makes the whole unknown."""
    r = rep.rule("C13.R5", "RecursiveMemoryEffect.get_effects collects get_effects of every nested operation (no filter / early continue) and propagates an unknown (None) effect", floor=1)
    f = idx.func("xdsl/traits.py", "RecursiveMemoryEffect.get_effects")
    cfg = CFG(f.node)
    inner = [w for w in walk_local(f.node) if isinstance(w, ast.For) and any(call_name(c) == "get_effects" and c.args and unparse(c.args[0]) == unparse(w.target) for c in calls_in(w))]
    if not inner:
        raise AnalysisError(f"{f.fq}: loop over the nested operations not found")
    from ..dataflow import reaching_defs

    for w in inner:
        var = unparse(w.target)
        it = w.iter
        if isinstance(it, ast.Name):
            ds = [v for _, v in reaching_defs(cfg, it.id, cfg.node_of(w)) if v is not None]
            if len(ds) == 1:
                it = ds[0]
        filt = [unparse(c_) for g_ in getattr(it, "generators", []) for c_ in g_.ifs]
        if filt:
            r.fail(f"{f.fq}:filter", Finding("C13.R5", f.fq, "nested-op-skipped", f"the nested operations are filtered by {filt} before their effects are collected: the effects of the excluded operations are invisible", f"{f.module.relpath}:{w.lineno}"))
        calls = {cfg.node_of(c) for c in calls_in(w) if call_name(c) == "get_effects" and c.args and unparse(c.args[0]) == var}
        head = cfg.node_of(w)
        inst = f"{f.fq}:{unparse(w.iter)[:30]}"
        if not calls:
            raise AnalysisError(f"{f.fq}: get_effects({var}) not found in the loop over nested operations")
        skip = None
        for m, lab in cfg.succ[head]:
            if lab == "T" and m not in calls:
                pth = cfg.path_avoiding(m, head, lambda n: n.id in calls, follow_exc=False)
                if pth is not None:
                    skip = pth
        if skip is not None:
            r.fail(inst, Finding("C13.R5", f.fq, "nested-op-skipped", "an iteration over the nested operations returns to the loop head without get_effects(" + var + "): " + " -> ".join(cfg.describe(skip)[-3:]) + " — the effects of the skipped operations (e.g. a store inside the regions of an scf.reduce terminator) are invisible, the enclosing op is reported side-effect free and is erased when its results are unused", f"{f.module.relpath}:{w.lineno}"))
        else:
            r.ok(inst, f"{f.loc} every nested op contributes its effects")
        # unknown effects propagate
        nones = [rt for rt in walk_local(w) if isinstance(rt, ast.Return) and (rt.value is None or (isinstance(rt.value, ast.Constant) and rt.value.value is None))]
        okn = any(any(re.fullmatch(r"\w+ is None", dewalrus(t_)) and p_ for t_, p_ in text_facts(f.node, rt)) for rt in nones)
        if okn:
            r.ok(inst + ":unknown", None)
        else:
            r.fail(inst + ":unknown", Finding("C13.R5", f.fq, "unknown-effect-dropped", "an unknown (None) effect set of a nested operation no longer makes the result None: the enclosing operation is treated as if the nested one had no effect", f.loc))


def check(idx: Index, rep: Report, tier: str) -> str:
    rep.run(check_predicate, idx, rep)
    rep.run(check_erase_sites, idx, rep)
    rep.run(check_liveness, idx, rep)
    rep.run(check_notify_and_entry, idx, rep)
    rep.run(check_recursive_effects, idx, rep)
    return (
        "Required-conjunct extraction over the removability predicate (closed over its helpers in "
        "dead_code_elimination.py and traits.get_effects), guarded-action check of every erase site of the dce "
        "pattern, region_dce, the greedy applier and CSE, liveness-rule and fixpoint-loop shape, notify-before-erase, "
        "entry block kept, reachability through possibly-unregistered terminators. Effect declarations of individual "
        "dialect operations are not decided."
    )
