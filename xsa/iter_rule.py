"""Rule <prop>.I1 — a one-shot iterator traversed twice.

`zip(...)`, `map(...)`, `filter(...)`, `reversed(...)`, `iter(...)`, `enumerate(...)` and generator expressions can be
traversed once; a second traversal sees nothing, silently (`all()` over it is True, a `for` body does not run, `sum` is
0).  The same holds for a parameter declared `Iterable[...]` / `Iterator[...]`: the caller may hand in a generator.
Reported: a name bound to such an object (or such a parameter) that is consumed at two places of one function, the second
reachable from the first without the name being re-bound in between, or consumed once inside a loop that does not
re-bind it (every iteration after the first sees an exhausted iterator)."""

from __future__ import annotations

import ast
import re

from .astutil import unparse, walk_local
from .cfg import CFG
from .memo_rule import lint_files
from .report import Finding, Report
from .srcindex import AnalysisError, Index

ONE_SHOT_CALLS = {"zip", "map", "filter", "reversed", "enumerate", "itertools.chain", "chain", "islice", "itertools.islice"}  # iter() is left out: a name bound to iter(...) is stepped through on purpose
CONSUMERS = {"any", "all", "sum", "list", "tuple", "set", "frozenset", "dict", "sorted", "max", "min", "len", "enumerate", "zip", "map", "filter", "reversed", "deque", "Counter", "join"}
ONE_SHOT_ANN = re.compile(r"^(typing\.|collections\.abc\.)?(Iterable|Iterator|Generator)\b")


# Reviewed sites of the pinned tree: a parameter declared Iterable that is traversed twice, where every caller in the
# tree passes a re-iterable collection (a latent hazard of the signature, not a behaviour of the tree).
REVIEWED = {
    ("xdsl/backend/riscv/lowering/utils.py", "move_to_regs", "values"): "callers (move_to_a_regs / move_to_unallocated_regs and their users) pass lists / tuples of SSA values",
    ("xdsl/parser/core.py", "Parser.parse_optional_region", "arguments"): "callers pass the list returned by a comma-separated-list parse (or None)",
}


def _one_shot(v: ast.AST) -> bool:
    if isinstance(v, ast.GeneratorExp):
        return True
    return isinstance(v, ast.Call) and unparse(v.func) in ONE_SHOT_CALLS


NON_CONSUMING = {"cast", "typing.cast", "iter", "isinstance", "id", "type", "repr", "print"}


def _identity_rebind(v: ast.AST, name: str) -> bool:
    """`x = cast(T, x)`: the same object under another static type"""
    return isinstance(v, ast.Call) and unparse(v.func) in ("cast", "typing.cast") and len(v.args) == 2 and isinstance(v.args[1], ast.Name) and v.args[1].id == name


def consumptions(fn: ast.AST, name: str, local: bool = False) -> list[ast.AST]:
    """AST nodes (statement-level anchors) at which `name` is traversed.  For a one-shot object created in the function
    (`local`), handing it to any call is a traversal by the callee."""
    out = []
    par: dict[int, ast.AST] = {}
    for n in ast.walk(fn):
        for c in ast.iter_child_nodes(n):
            par[id(c)] = n
    for n in walk_local(fn):
        if not (isinstance(n, ast.Name) and n.id == name and isinstance(n.ctx, ast.Load)):
            continue
        p = par.get(id(n))
        if isinstance(p, (ast.For, ast.AsyncFor)) and p.iter is n:
            out.append(n)
        elif isinstance(p, ast.comprehension) and p.iter is n:
            out.append(n)
        elif isinstance(p, ast.Call) and n in p.args and (unparse(p.func) in CONSUMERS or (isinstance(p.func, ast.Attribute) and p.func.attr in ("join", "extend", "update", "from_iterable"))):
            out.append(n)
        elif isinstance(p, ast.Starred):
            out.append(n)
        elif local and isinstance(p, ast.Call) and n in p.args and unparse(p.func) not in NON_CONSUMING:
            out.append(n)
        elif local and isinstance(p, ast.keyword):
            out.append(n)
        elif local and isinstance(p, ast.Compare) and n in p.comparators and isinstance(p.ops[0], (ast.In, ast.NotIn)):
            out.append(n)  # a membership test steps through a one-shot iterator; on an `Iterable` parameter it is the usual way to ask a set / tuple
    return out


def sites(fn: ast.AST) -> list[tuple[str, ast.AST, ast.AST | None, str]]:
    """(name, first consumption, second consumption or None for 'inside a loop', how the name is one-shot)"""
    a = fn.args  # type: ignore[attr-defined]
    cand: dict[str, str] = {}
    for x in a.posonlyargs + a.args + a.kwonlyargs:
        if x.annotation is not None and ONE_SHOT_ANN.match(unparse(x.annotation).strip("'\"")):
            cand[x.arg] = f"parameter `{x.arg}: {unparse(x.annotation)[:40]}`"
    binds: dict[str, list[ast.AST]] = {}
    for n in walk_local(fn):
        if isinstance(n, ast.Assign) and len(n.targets) == 1 and isinstance(n.targets[0], ast.Name):
            binds.setdefault(n.targets[0].id, []).append(n)
        elif isinstance(n, ast.AnnAssign) and isinstance(n.target, ast.Name) and n.value is not None:
            binds.setdefault(n.target.id, []).append(n)
        elif isinstance(n, ast.NamedExpr):
            binds.setdefault(n.target.id, []).append(n)
    for nm, bs in binds.items():
        if nm in cand:
            # a parameter that is re-bound to a materialised copy (`xs = list(xs)`) is no longer one-shot
            if all(not _one_shot(b.value) for b in bs):
                first = min(b.lineno for b in bs)
                if not any(c.lineno < first for c in consumptions(fn, nm)):
                    del cand[nm]
            continue
        real = [b for b in bs if not _identity_rebind(b.value, nm)]
        if real and all(_one_shot(b.value) for b in real):
            cand[nm] = f"`{nm} = {unparse(real[0].value)[:50]}`"
            binds[nm] = real
    if not cand:
        return []
    cfg = CFG(fn)  # type: ignore[arg-type]
    out = []
    for nm, how in cand.items():
        cons = consumptions(fn, nm, local=not how.startswith("parameter"))
        if not cons:
            continue
        rebinds = set()
        for b in binds.get(nm, []):
            try:
                rebinds.add(cfg.node_of(b))
            except AnalysisError:
                pass
        nodes = []
        for c in cons:
            try:
                nodes.append((c, cfg.node_of(c)))
            except AnalysisError:
                continue
        hit = None
        for i, (c1, n1) in enumerate(nodes):
            for j, (c2, n2) in enumerate(nodes):
                if i == j or n1 == n2:
                    continue
                if cfg.path_avoiding(n1, n2, lambda x: x.id in rebinds, follow_exc=False) is not None and c1.lineno <= c2.lineno:
                    hit = (c1, c2)
                    break
            if hit:
                break
        if hit is None:
            for c1, n1 in nodes:
                # consumed inside a loop that does not re-bind it: the loop's later iterations see it exhausted.  The
                # consuming `for` itself is not such a loop; an enclosing one is.
                if cfg.path_avoiding(n1, n1, lambda x: x.id in rebinds, follow_exc=False) is not None:
                    par_for = [w for w in walk_local(fn) if isinstance(w, (ast.For, ast.AsyncFor)) and any(x is c1 for x in ast.walk(w.iter))]
                    if par_for:
                        # cycle through the for head itself is the traversal; require a cycle that leaves the for statement
                        w = par_for[0]
                        inner = {cfg.node_of(x) for x in ast.walk(w) if id(x) in cfg.owner}
                        outs = [m for m, lab in cfg.succ[n1] if lab == "F"]
                        if not any(cfg.path_avoiding(m, n1, lambda x: x.id in rebinds, follow_exc=False) is not None or m == n1 for m in outs):
                            continue
                    hit = (c1, None)
                    break
        if hit:
            out.append((nm, hit[0], hit[1], how))
    return out


STRUCT_MUTATORS = {"append", "extend", "insert", "remove", "pop", "popitem", "clear", "add", "discard", "update", "popleft", "appendleft", "sort", "reverse"}


def mutated_while_iterated(fn: ast.AST) -> list[tuple[ast.AST, ast.AST]]:
    """(for statement, mutation): the collection a `for` iterates directly (`xs`, `self.xs`, `d.items()`) is structurally
    changed in the loop body and the loop can go on to another iteration afterwards (skipped / repeated elements for a
    list, RuntimeError for a dict or set)."""
    out = []
    cfg = None
    for w in walk_local(fn):
        if not isinstance(w, (ast.For, ast.AsyncFor)):
            continue
        it = unparse(w.iter)
        if not re.fullmatch(r"[\w.]+(\.(items|keys|values)\(\))?", it):
            continue
        base = re.sub(r"\.(items|keys|values)\(\)$", "", it)
        for b in w.body:
            for x in ast.walk(b):
                hit = None
                if isinstance(x, ast.Call) and isinstance(x.func, ast.Attribute) and x.func.attr in STRUCT_MUTATORS and unparse(x.func.value) == base:
                    hit = x
                if isinstance(x, ast.Delete) and any(isinstance(t, ast.Subscript) and unparse(t.value) == base for t in x.targets):
                    hit = x
                if hit is None:
                    continue
                if cfg is None:
                    cfg = CFG(fn)  # type: ignore[arg-type]
                try:
                    h, m = cfg.node_of(w), cfg.node_of(hit)
                except AnalysisError:
                    continue
                inside = {cfg.owner[id(y)] for y in ast.walk(w) if id(y) in cfg.owner}
                if cfg.path_avoiding(m, h, lambda n_: n_.id not in inside, follow_exc=False) is not None:
                    out.append((w, hit))
    return out


def check(idx: Index, rep: Report, prop: str) -> None:
    r = rep.rule(f"{prop}.I1", "no one-shot iterator (zip / map / filter / reversed / iter / enumerate / generator expression, or a parameter declared Iterable / Iterator) is traversed twice in one function of the anchored code", floor=None)
    pos1 = ast.parse("def f(a, b):\n    pairs = zip(a, b)\n    if any(x < 0 for x, _ in pairs):\n        raise ValueError\n    for x, y in pairs:\n        g(x, y)\n").body[0]
    pos2 = ast.parse("def f(order):\n    blocks = reversed(order)\n    changed = True\n    while changed:\n        changed = False\n        for b in blocks:\n            changed |= g(b)\n").body[0]
    neg = ast.parse("def f(a, b):\n    pairs = list(zip(a, b))\n    if any(x < 0 for x, _ in pairs):\n        raise ValueError\n    for x, y in pairs:\n        g(x, y)\n    for i in range(3):\n        for q in zip(a, b):\n            g(q, i)\n").body[0]
    if len(sites(pos1)) != 1 or len(sites(pos2)) != 1 or sites(neg):
        raise AnalysisError("one-shot iterator detector fails its positive / negative examples")
    pos3 = ast.parse("def f(self):\n    for u in self.users:\n        if dead(u):\n            self.users.remove(u)\n").body[0]
    neg3 = ast.parse("def f(self):\n    for u in self.users:\n        if dead(u):\n            self.users.remove(u)\n            break\n    for u in list(self.users):\n        self.users.remove(u)\n").body[0]
    if len(mutated_while_iterated(pos3)) != 1 or mutated_while_iterated(neg3):
        raise AnalysisError("mutation-while-iterating detector fails its positive / negative example")
    r.ok("self-check", "zip consumed by any() then by a for loop; reversed() consumed inside a while loop; a list changed inside the loop over it: recognised; list(zip()) twice, removal followed by break, loop over a copy: not reported")
    nfun = 0
    for rel in lint_files(prop, idx):
        try:
            mi = idx.module(rel)
        except AnalysisError:
            continue
        for f in mi.functions.values():
            nfun += 1
            fn = f.raw_node
            for w, hit in mutated_while_iterated(fn):
                r.fail(f"{rel}:{f.qualname}:mutated@{w.lineno - fn.lineno}", Finding(f"{prop}.I1", f.fq, f"mutated-while-iterated:{unparse(w.iter)[:40]}", f"`{unparse(hit)[:60]}` (line {hit.lineno}) changes the collection that `for {unparse(w.target)} in {unparse(w.iter)[:40]}` is iterating, and the loop goes on afterwards: a list skips the element after a removal (or visits appended ones), a dict / set raises RuntimeError", f"{rel}:{hit.lineno}"))
            for nm, c1, c2, how in sites(fn):
                inst = f"{rel}:{f.qualname}:{nm}"
                if (rel, f.qualname, nm) in REVIEWED and how.startswith("parameter"):
                    r.ok(inst, f"reviewed: {REVIEWED[(rel, f.qualname, nm)]}")
                    continue
                if c2 is not None:
                    msg = f"{how} can be traversed once, but it is consumed at line {c1.lineno} and again at line {c2.lineno}: the second traversal sees an exhausted iterator (a loop body that never runs, all() = True, sum() = 0) and whatever it was meant to check or do is silently skipped"
                else:
                    msg = f"{how} can be traversed once, but it is consumed at line {c1.lineno} inside a loop that does not re-create it: from the second iteration on the traversal sees nothing"
                r.fail(inst, Finding(f"{prop}.I1", f.fq, f"iterator-reused:{nm}", msg, f"{rel}:{c1.lineno}"))
    rep.extra.setdefault("iter_functions", nfun)
