"""Rule <prop>.M1 — memoisation in the code a property is anchored in.

A cache makes the answer of a function depend on the history of calls.  For the properties claimed here that is sound
only if (i) the key determines everything the cached value is computed from, (ii) equal keys mean indistinguishable
inputs (a Python float key merges 0.0 and -0.0), (iii) a cached mutable result is not written by its users, and (iv) the
state the value was derived from cannot change while the entry lives.  (i)-(iii) are decided here for every memoisation
site that is *not* in the baseline below; (iv) is not decidable in general, so a new cache that passes (i)-(iii) is
reported as "cannot decide" (ANALYSIS-ERROR), never as a pass.

BASELINE: the memoisation sites of the pinned tree (tables that are the object's own state: symbol tables, SSA name
tables, the interpreter's registries, visited sets of single traversals, ...).  They were listed by the detector and
looked at one by one; none caches a value derived from state that outlives the table."""

from __future__ import annotations

import ast
import json
import re
from pathlib import Path

from .astutil import unparse, walk_local
from .memo import MemoSite, float_keyed, key_misses, params_of, projected, stale_on_ir_object, returns_mutable, sites_of_function
from .report import Finding, Report
from .srcindex import AnalysisError, Index

VERIF = Path(__file__).resolve().parent.parent


def anchored_files(prop: str) -> list[str]:
    for line in (VERIF / "properties.jsonl").read_text().splitlines():
        if line.strip():
            d = json.loads(line)
            if d.get("id") == prop:
                return [f for f in d.get("anchors", {}).get("files", []) if f.endswith(".py")]
    return []


def lint_files(prop: str, idx: Index) -> list[str]:
    """Files looked at by the baseline-free lints (A1, I1): the anchored files, the files the property's rule module
    names, and the implementations of a hook the anchored code calls back (an anchored *directory* is not expanded)."""
    out = list(anchored_files(prop))
    rm = VERIF / "xsa" / "rules" / f"{prop.lower()}.py"
    if rm.exists():
        out += re.findall(r'"(xdsl/[\w/]+\.py)"', rm.read_text())
    out += HOOK_IMPLEMENTATIONS.get(prop, [])
    seen: set[str] = set()
    return [f for f in out if f in idx.by_relpath and not (f in seen or seen.add(f))]


# implementations of a callback defined in the anchored code (found with grep, one line of reason each)
HOOK_IMPLEMENTATIONS = {
    "C19": ["xdsl/dialects/riscv_scf.py", "xdsl/dialects/x86_scf.py", "xdsl/dialects/riscv_snitch.py"],  # override RegisterAllocatableOperation.allocate_registers
}


def site_id(relpath: str, qualname: str, fn: ast.AST, s: MemoSite) -> tuple[str, str, str]:
    if s.kind == "decorator":
        return (relpath, qualname, "@cache")
    pn = set(params_of(fn))
    t = ast.parse(s.table, mode="eval").body
    stored = {n.id for n in ast.walk(fn) if isinstance(n, ast.Name) and isinstance(n.ctx, ast.Store)}

    class R(ast.NodeTransformer):
        def visit_Name(self, n: ast.Name):
            if n.id in stored and n.id not in pn:
                return ast.copy_location(ast.Name(id="_local", ctx=n.ctx), n)
            return n

    return (relpath, qualname, s.kind + ":" + ast.unparse(R().visit(t)))


BASELINE: set[tuple[str, str, str]] = set()  # filled from memo_baseline.json (generated on the pinned tree, reviewed)
_bl = VERIF / "xsa" / "memo_baseline.json"
if _bl.exists():
    BASELINE = {tuple(x) for x in json.loads(_bl.read_text())}

MUT = ("append", "add", "update", "setdefault", "pop", "popitem", "clear", "extend", "insert", "remove", "discard")


def _mutated_by_callers(mi, fname: str) -> str | None:
    for g in mi.functions.values():
        holders = set()
        for n in ast.walk(g.raw_node):
            if isinstance(n, (ast.Assign, ast.AnnAssign)) and isinstance(getattr(n, "value", None), ast.Call) and unparse(n.value.func).split(".")[-1] == fname:
                tg = n.targets[0] if isinstance(n, ast.Assign) else n.target
                holders.add(unparse(tg))
        if not holders:
            continue
        for n in ast.walk(g.raw_node):
            if isinstance(n, ast.Assign):
                for t in n.targets:
                    if isinstance(t, ast.Subscript) and unparse(t.value) in holders:
                        return f"`{unparse(n)[:60]}` in {g.qualname}"
            if isinstance(n, ast.AugAssign) and isinstance(n.target, ast.Subscript) and unparse(n.target.value) in holders:
                return f"`{unparse(n)[:60]}` in {g.qualname}"
            if isinstance(n, ast.Call) and isinstance(n.func, ast.Attribute) and n.func.attr in MUT:
                recv = n.func.value
                base = recv.value if isinstance(recv, ast.Subscript) else recv
                if unparse(base) in holders:
                    return f"`{unparse(n)[:60]}` in {g.qualname}"
    return None


def check(idx: Index, rep: Report, prop: str) -> None:
    files = anchored_files(prop)
    r = rep.rule(f"{prop}.M1", "memoisation in the anchored code: a cache key determines everything the cached value is computed from, is not a Python float, a cached mutable result is not written by its users; a new cache that passes these tests is still 'cannot decide' (staleness is not decided)", floor=None)
    # self-check of the detector (expected count on today's tree: zero new sites)
    pos = ast.parse("_T = {}\ndef f(interp, typ):\n    if (w := _T.get(typ)) is not None:\n        return w\n    w = interp.width\n    _T[typ] = w\n    return w\n").body[1]
    ps = sites_of_function(pos)
    if len(ps) != 1 or key_misses(ps[0]) != ["interp"]:
        raise AnalysisError("memo detector fails its positive example")
    r.ok("self-check", "fill-on-miss table keyed without a parameter its value reads: recognised")
    n_sites = 0
    for rel in files:
        try:
            mi = idx.module(rel)
        except AnalysisError:
            continue
        for f in mi.functions.values():
            fnode = f.as_raw().node  # canonical local form (walrus hoisted, nested ifs merged, ...): one spelling per idiom
            for s in sites_of_function(fnode):
                n_sites += 1
                sid = site_id(rel, f.qualname, fnode, s)
                inst = f"{rel}:{f.qualname}:{sid[2]}"
                if sid in BASELINE:
                    r.ok(inst, None)
                    continue
                # the same table as a reviewed site of this file, reached from another function (a helper was extracted,
                # two functions were merged): the judgments below are still made; only the fall-back "unreviewed" is not
                moved = any(b[0] == sid[0] and b[2] == sid[2] for b in BASELINE)
                loc = f"{rel}:{getattr(s.node, 'lineno', f.raw_node.lineno)}"
                fk = float_keyed(s)
                if fk is not None:
                    r.fail(inst, Finding(f"{prop}.M1", f.fq, f"float-keyed-cache:{fk}", f"{s.describe()} is keyed on the Python float `{fk}`: 0.0 == -0.0 with equal hashes, so both zeros share one entry and whichever is seen first decides the answer for the other", loc))
                    continue
                if s.kind == "decorator":
                    if returns_mutable(fnode):
                        m = _mutated_by_callers(mi, f.name)
                        if m is not None:
                            r.fail(inst, Finding(f"{prop}.M1", f.fq, "cached-result-mutated", f"`{f.name}` is cached and returns a mutable container that {m} writes to: the write lands in the shared cache entry and is seen by every later call with an equal argument", loc))
                            continue
                    r.fail(inst, Finding(f"{prop}.M1", f.fq, "unreviewed-cache", f"new cache {s.describe()} on `{f.qualname}`: whether its entries can go stale is not decided", loc))
                    continue
                if s.kind == "table":
                    km = key_misses(s)
                    if km:
                        r.fail(inst, Finding(f"{prop}.M1", f.fq, f"cache-key-misses:{','.join(km)}", f"the memo {s.describe()} stores a value computed from {km}, which the key `{unparse(s.key)}` does not mention: a later call with the same key and another {km[0]} gets the value computed for the first one", loc))
                        continue
                    so = stale_on_ir_object(s, mi.tree if hasattr(mi, "tree") else None)
                    if so is not None:
                        r.fail(inst, Finding(f"{prop}.M1", f.fq, f"cache-on-mutable-ir:{so}", f"the memo {s.describe()} is kept on `{so}` and computed from the state of `{so}` itself; attributes, properties, operands and the contents of an IR object change through its public API without telling this cache, and nothing in the module ever drops the entry: after such a change the value computed for the old state is served", loc))
                        continue
                    pj = projected(s)
                    if pj:
                        r.fail(inst, Finding(f"{prop}.M1", f.fq, f"cache-key-projection:{','.join(pj)}", f"the memo {s.describe()} hands `{pj[0]}` as a whole to the computation but keeps only `{unparse(s.key)}` of it as the key: two different {pj[0]} with the same projection share one entry", loc))
                        continue
                if moved and s.kind != "decorator":
                    r.ok(inst, f"{rel}: {s.describe()} is the table of a reviewed site of this file, used from `{f.qualname}`; key and value judgments hold")
                    continue
                r.fail(inst, Finding(f"{prop}.M1", f.fq, "unreviewed-cache" if s.kind != "mark" else "unreviewed-visited-mark", f"new {'memo' if s.kind != 'mark' else 'visited mark'} {s.describe()} in `{f.qualname}`: whether it can go stale (the state it was derived from changes while the entry lives) is not decided", loc))
    rep.extra.setdefault("memo_sites", n_sites)
    from . import alias_rule  # the second history-dependence lint shares the entry point (check.py, runall.py, selftest)

    rep.run(alias_rule.check, idx, rep, prop)
    from . import iter_rule

    rep.run(iter_rule.check, idx, rep, prop)
