"""Small dataflow helpers on top of cfg.CFG: reaching definitions of local names, and a
straight-line symbolic environment used by the derivation rules."""

from __future__ import annotations

import ast

from .astutil import assigned_targets
from .cfg import CFG, Node


def defs_in_node(n: Node) -> dict[str, ast.AST | None]:
    """Local names (re)bound by cfg node n -> the value expression (None if not a plain binding)."""
    out: dict[str, ast.AST | None] = {}
    a = n.ast
    if a is None:
        return out
    if n.kind == "stmt":
        if isinstance(a, ast.Assign):
            for t in a.targets:
                if isinstance(t, ast.Name):
                    out[t.id] = a.value
                elif isinstance(t, (ast.Tuple, ast.List)):
                    vals = a.value.elts if isinstance(a.value, (ast.Tuple, ast.List)) and len(a.value.elts) == len(t.elts) else None
                    for i, e in enumerate(t.elts):
                        if isinstance(e, ast.Name):
                            out[e.id] = vals[i] if vals else ast.Subscript(value=a.value, slice=ast.Constant(i), ctx=ast.Load())
                        elif isinstance(e, ast.Starred) and isinstance(e.value, ast.Name):
                            out[e.value.id] = None
        elif isinstance(a, ast.AnnAssign) and isinstance(a.target, ast.Name) and a.value is not None:
            out[a.target.id] = a.value
        elif isinstance(a, ast.AugAssign) and isinstance(a.target, ast.Name):
            out[a.target.id] = None
        elif isinstance(a, (ast.FunctionDef, ast.AsyncFunctionDef, ast.ClassDef)):
            out[a.name] = None
        elif isinstance(a, (ast.Import, ast.ImportFrom)):
            for al in a.names:
                out[(al.asname or al.name).split(".")[0]] = None
    elif n.kind == "for":
        for t in assigned_targets(a):  # type: ignore[arg-type]
            if isinstance(t, ast.Name):
                out[t.id] = None
    elif n.kind == "with":
        for t in assigned_targets(a):  # type: ignore[arg-type]
            if isinstance(t, ast.Name):
                out[t.id] = None
    elif n.kind == "handler":
        if getattr(a, "name", None):
            out[a.name] = None  # type: ignore[attr-defined]
    elif n.kind == "case":
        for x in ast.walk(a):
            if isinstance(x, (ast.MatchAs, ast.MatchStar)) and x.name:
                out[x.name] = None
            elif isinstance(x, ast.MatchMapping) and x.rest:
                out[x.rest] = None
    # walrus anywhere in the node's own expressions
    roots: list[ast.AST]
    if n.kind == "for":
        roots = [a.iter]  # type: ignore[attr-defined]
    elif n.kind == "with":
        roots = [i.context_expr for i in a.items]  # type: ignore[attr-defined]
    elif n.kind == "handler":
        roots = []
    elif isinstance(a, (ast.FunctionDef, ast.AsyncFunctionDef, ast.ClassDef)):
        roots = []
    else:
        roots = [a]
    for r in roots:
        for x in ast.walk(r):
            if isinstance(x, ast.NamedExpr) and isinstance(x.target, ast.Name):
                out[x.target.id] = x.value
    return out


def reaching_defs(cfg: CFG, name: str, at: int) -> list[tuple[int, ast.AST | None]]:
    """Definitions of local `name` that reach the START of cfg node `at`:
    list of (def node id, value expr or None); node id == cfg.entry means parameter / free name."""
    out: list[tuple[int, ast.AST | None]] = []
    seen: set[int] = set()
    stack = list(cfg.pred[at])
    while stack:
        n = stack.pop()
        if n in seen:
            continue
        seen.add(n)
        d = defs_in_node(cfg.nodes[n])
        if name in d:
            out.append((n, d[name]))
            continue
        if n == cfg.entry:
            out.append((n, None))
            continue
        stack.extend(cfg.pred[n])
    return out


def params_of(fn: ast.FunctionDef | ast.AsyncFunctionDef) -> list[str]:
    a = fn.args
    return [x.arg for x in a.posonlyargs + a.args + a.kwonlyargs] + ([a.vararg.arg] if a.vararg else []) + (
        [a.kwarg.arg] if a.kwarg else []
    )


class Deriv:
    """Expand a local name to the set of expressions it may stand for (through plain rebinding
    chains, bounded), so that rules can ask 'does X derive only from sources S?'."""

    def __init__(self, cfg: CFG):
        self.cfg = cfg

    def expand(self, expr: ast.AST, at: int, depth: int = 6) -> list[ast.AST]:
        """Possible defining expressions of `expr` evaluated at node `at` (names replaced by their
        reaching definitions where they are plain bindings).  Parameters stay Names."""
        if depth <= 0 or not isinstance(expr, ast.Name):
            return [expr]
        res: list[ast.AST] = []
        for nid, val in reaching_defs(self.cfg, expr.id, at):
            if nid == self.cfg.entry or val is None:
                res.append(expr if nid == self.cfg.entry else ast.Name(id=f"<opaque:{expr.id}@{self.cfg.nodes[nid].lineno}>", ctx=ast.Load()))
            else:
                res.extend(self.expand(val, nid, depth - 1))
        return res or [expr]


class _Subst(ast.NodeTransformer):
    def __init__(self, cfg: CFG, at: int, depth: int):
        self.cfg, self.at, self.depth = cfg, at, depth

    def visit_Name(self, node: ast.Name):
        if not isinstance(node.ctx, ast.Load) or self.depth <= 0:
            return node
        defs = reaching_defs(self.cfg, node.id, self.at)
        if len(defs) == 1 and defs[0][0] != self.cfg.entry and defs[0][1] is not None:
            nid, val = defs[0]
            import copy

            return _Subst(self.cfg, nid, self.depth - 1).visit(copy.deepcopy(val))
        return node

    def visit_Lambda(self, node):
        return node

    def visit_ListComp(self, node):
        return node

    visit_SetComp = visit_DictComp = visit_GeneratorExp = visit_ListComp


def resolved_text(cfg: CFG, expr: ast.AST, at: int | None = None, depth: int = 6) -> str:
    """ast.unparse of expr after substituting every local name that has exactly one reaching plain
    definition by that definition (recursively).  Names with several definitions and parameters
    stay as they are."""
    import copy

    if at is None:
        at = cfg.node_of(expr)
    e = _Subst(cfg, at, depth).visit(copy.deepcopy(expr))
    return ast.unparse(ast.fix_missing_locations(e))
