"""Small dataflow helpers on top of cfg.CFG: reaching definitions of local names, and a
straight-line symbolic environment used by the derivation rules."""

from __future__ import annotations

import ast

from .astutil import assigned_targets
from .cfg import CFG, Node


def defs_in_node(n: Node) -> dict[str, ast.AST | None]:
    """Local names (re)bound by cfg node n -> the value expression (None if not a plain binding)."""
    out: dict[str, ast.AST | None] = {}
    a = n.ast
    if a is None:
        return out
    if n.kind == "stmt":
        if isinstance(a, ast.Assign):
            for t in a.targets:
                if isinstance(t, ast.Name):
                    out[t.id] = a.value
                elif isinstance(t, (ast.Tuple, ast.List)):
                    vals = a.value.elts if isinstance(a.value, (ast.Tuple, ast.List)) and len(a.value.elts) == len(t.elts) else None
                    for i, e in enumerate(t.elts):
                        if isinstance(e, ast.Name):
                            out[e.id] = vals[i] if vals else ast.Subscript(value=a.value, slice=ast.Constant(i), ctx=ast.Load())
                        elif isinstance(e, ast.Starred) and isinstance(e.value, ast.Name):
                            out[e.value.id] = None
        elif isinstance(a, ast.AnnAssign) and isinstance(a.target, ast.Name) and a.value is not None:
            out[a.target.id] = a.value
        elif isinstance(a, ast.AugAssign) and isinstance(a.target, ast.Name):
            out[a.target.id] = None
        elif isinstance(a, (ast.FunctionDef, ast.AsyncFunctionDef, ast.ClassDef)):
            out[a.name] = None
        elif isinstance(a, (ast.Import, ast.ImportFrom)):
            for al in a.names:
                out[(al.asname or al.name).split(".")[0]] = None
    elif n.kind == "for":
        for t in assigned_targets(a):  # type: ignore[arg-type]
            if isinstance(t, ast.Name):
                out[t.id] = None
    elif n.kind == "with":
        for t in assigned_targets(a):  # type: ignore[arg-type]
            if isinstance(t, ast.Name):
                out[t.id] = None
    elif n.kind == "handler":
        if getattr(a, "name", None):
            out[a.name] = None  # type: ignore[attr-defined]
    elif n.kind == "case":
        for x in ast.walk(a):
            if isinstance(x, (ast.MatchAs, ast.MatchStar)) and x.name:
                out[x.name] = None
            elif isinstance(x, ast.MatchMapping) and x.rest:
                out[x.rest] = None
    # walrus anywhere in the node's own expressions
    roots: list[ast.AST]
    if n.kind == "for":
        roots = [a.iter]  # type: ignore[attr-defined]
    elif n.kind == "with":
        roots = [i.context_expr for i in a.items]  # type: ignore[attr-defined]
    elif n.kind == "handler":
        roots = []
    elif isinstance(a, (ast.FunctionDef, ast.AsyncFunctionDef, ast.ClassDef)):
        roots = []
    else:
        roots = [a]
    for r in roots:
        for x in ast.walk(r):
            if isinstance(x, ast.NamedExpr) and isinstance(x.target, ast.Name):
                out[x.target.id] = x.value
    return out


def reaching_defs(cfg: CFG, name: str, at: int) -> list[tuple[int, ast.AST | None]]:
    """Definitions of local `name` that reach the START of cfg node `at`:
    list of (def node id, value expr or None); node id == cfg.entry means parameter / free name."""
    out: list[tuple[int, ast.AST | None]] = []
    seen: set[int] = set()
    stack = list(cfg.pred[at])
    while stack:
        n = stack.pop()
        if n in seen:
            continue
        seen.add(n)
        d = defs_in_node(cfg.nodes[n])
        if name in d:
            out.append((n, d[name]))
            continue
        if n == cfg.entry:
            out.append((n, None))
            continue
        stack.extend(cfg.pred[n])
    return out


def params_of(fn: ast.FunctionDef | ast.AsyncFunctionDef) -> list[str]:
    a = fn.args
    return [x.arg for x in a.posonlyargs + a.args + a.kwonlyargs] + ([a.vararg.arg] if a.vararg else []) + (
        [a.kwarg.arg] if a.kwarg else []
    )


class Deriv:
    """Expand a local name to the set of expressions it may stand for (through plain rebinding
    chains, bounded), so that rules can ask 'does X derive only from sources S?'."""

    def __init__(self, cfg: CFG):
        self.cfg = cfg

    def expand(self, expr: ast.AST, at: int, depth: int = 6) -> list[ast.AST]:
        """Possible defining expressions of `expr` evaluated at node `at` (names replaced by their
        reaching definitions where they are plain bindings).  Parameters stay Names."""
        if depth <= 0 or not isinstance(expr, ast.Name):
            return [expr]
        res: list[ast.AST] = []
        for nid, val in reaching_defs(self.cfg, expr.id, at):
            if nid == self.cfg.entry or val is None:
                res.append(expr if nid == self.cfg.entry else ast.Name(id=f"<opaque:{expr.id}@{self.cfg.nodes[nid].lineno}>", ctx=ast.Load()))
            else:
                res.extend(self.expand(val, nid, depth - 1))
        return res or [expr]


_CONTAINER_CTORS = {"dict", "list", "set", "defaultdict", "OrderedDict", "OrderedSet", "deque", "Counter", "collections.defaultdict", "collections.OrderedDict", "collections.deque"}


def _fresh_container(v: ast.AST) -> bool:
    if isinstance(v, (ast.Dict, ast.List, ast.Set)) and not (v.keys if isinstance(v, ast.Dict) else v.elts):
        return True
    if isinstance(v, ast.Call):
        f = v.func.value if isinstance(v.func, ast.Subscript) else v.func
        try:
            name = ast.unparse(f)
        except Exception:
            return False
        if name in _CONTAINER_CTORS and (not v.args or name.endswith("defaultdict")) and not v.keywords:
            return True
    return False


class _Subst(ast.NodeTransformer):
    def __init__(self, cfg: CFG, at: int, depth: int):
        self.cfg, self.at, self.depth = cfg, at, depth

    def visit_Name(self, node: ast.Name):
        if not isinstance(node.ctx, ast.Load) or self.depth <= 0:
            return node
        defs = reaching_defs(self.cfg, node.id, self.at)
        if len(defs) == 1 and defs[0][0] != self.cfg.entry and defs[0][1] is not None:
            nid, val = defs[0]
            import copy

            if _fresh_container(val):
                # `m = {}` / `defaultdict(list)` / `[]`: the name denotes a container that is filled afterwards; the
                # expression that created it says nothing about what `m[k]` is at the point of use
                return node
            return _Subst(self.cfg, nid, self.depth - 1).visit(copy.deepcopy(val))
        return node

    def visit_Lambda(self, node):
        return node

    def visit_ListComp(self, node):
        return node

    visit_SetComp = visit_DictComp = visit_GeneratorExp = visit_ListComp


class _Fold(ast.NodeTransformer):
    """(a, b)[0] -> a;  (a, b)[0 if c else 1] -> a if c else b;  constant integer arithmetic in the index."""

    def _const(self, e: ast.AST):
        if isinstance(e, ast.Constant) and isinstance(e.value, int) and not isinstance(e.value, bool):
            return e.value
        if isinstance(e, ast.UnaryOp) and isinstance(e.op, ast.USub):
            v = self._const(e.operand)
            return None if v is None else -v
        if isinstance(e, ast.BinOp) and isinstance(e.op, (ast.Add, ast.Sub)):
            l, r = self._const(e.left), self._const(e.right)
            if l is not None and r is not None:
                return l + r if isinstance(e.op, ast.Add) else l - r
        return None

    def _index(self, ix: ast.AST):
        """index expression -> int | ('if', test, int, int) | None"""
        c = self._const(ix)
        if c is not None:
            return c
        if isinstance(ix, ast.IfExp):
            a, b = self._const(ix.body), self._const(ix.orelse)
            if a is not None and b is not None:
                return ("if", ix.test, a, b)
        if isinstance(ix, ast.BinOp) and isinstance(ix.op, (ast.Add, ast.Sub)):
            l, r = self._index(ix.left), self._index(ix.right)
            if isinstance(l, int) and isinstance(r, tuple):
                f = (lambda v: l + v) if isinstance(ix.op, ast.Add) else (lambda v: l - v)
                return ("if", r[1], f(r[2]), f(r[3]))
            if isinstance(r, int) and isinstance(l, tuple):
                f = (lambda v: v + r) if isinstance(ix.op, ast.Add) else (lambda v: v - r)
                return ("if", l[1], f(l[2]), f(l[3]))
        return None

    def visit_Subscript(self, node: ast.Subscript):
        self.generic_visit(node)
        if isinstance(node.value, (ast.Tuple, ast.List)) and not any(isinstance(e, ast.Starred) for e in node.value.elts) and isinstance(node.ctx, ast.Load):
            n = len(node.value.elts)
            ix = self._index(node.slice)
            if isinstance(ix, int) and -n <= ix < n:
                return node.value.elts[ix]
            if isinstance(ix, tuple) and all(-n <= v < n for v in ix[2:]):
                return ast.IfExp(test=ix[1], body=node.value.elts[ix[2]], orelse=node.value.elts[ix[3]])
        return node


def fold(e: ast.AST) -> ast.AST:
    return ast.fix_missing_locations(_Fold().visit(e))


def resolved_text(cfg: CFG, expr: ast.AST, at: int | None = None, depth: int = 6) -> str:
    """ast.unparse of expr after substituting every local name that has exactly one reaching plain
    definition by that definition (recursively).  Names with several definitions and parameters
    stay as they are."""
    import copy

    if at is None:
        at = cfg.node_of(expr)
    e = _Subst(cfg, at, depth).visit(copy.deepcopy(expr))
    return ast.unparse(fold(ast.fix_missing_locations(e)))


def ifexp_cases(text: str, limit: int = 3) -> list[str]:
    """The expression `text` specialised to every truth assignment of the tests of its conditional expressions (the same
    test takes the same branch everywhere), each folded: `c[(a, b)[0] if t else (b, a)[0]]`  ->  [`c[a]`, `c[b]`].
    At most `limit` distinct tests; beyond that the text is returned as it is."""
    import copy
    import itertools

    try:
        e = ast.parse(text, mode="eval").body
    except SyntaxError:
        return [text]
    tests: list[str] = []
    for n in ast.walk(e):
        if isinstance(n, ast.IfExp) and ast.unparse(n.test) not in tests:
            tests.append(ast.unparse(n.test))
    if not tests or len(tests) > limit:
        return [text]
    out = []
    for choice in itertools.product((True, False), repeat=len(tests)):
        env = dict(zip(tests, choice))

        class T(ast.NodeTransformer):
            def visit_IfExp(self, node: ast.IfExp):
                self.generic_visit(node)
                return node.body if env[ast.unparse(node.test)] else node.orelse

        # the tests were recorded before the rewrite: visit bottom-up on a copy whose tests are still the original text
        class T2(ast.NodeTransformer):
            def visit_IfExp(self, node: ast.IfExp):
                key = ast.unparse(node.test)
                br = node.body if env.get(key, True) else node.orelse
                return self.visit(br)

        v = T2().visit(copy.deepcopy(e))
        out.append(ast.unparse(fold(ast.fix_missing_locations(v))))
    return out
