"""xsa — static analysis of xDSL's source tree (nothing from xdsl is imported or executed)."""
