"""Mutation probe of the rule set (thorough tier): how much of the anchored code do the rules actually constrain?

For every function the rules of a property looked up through `Index.func` / `try_func` on the clean tree, syntactic
mutants are generated on the AST (nothing is written to /repo and nothing is executed):

  DEL   a call / assignment / delete statement is replaced by `pass`
  NEG   an `if` / `while` / `assert` condition is negated
  CMP   one comparison operator is flipped (== !=, < <=, > >=, is / is not, in / not in)
  BOOL  one `and` <-> `or`
  CONST an integer literal 0 <-> 1 or a boolean literal is flipped
  SWAP  the first two positional arguments of a call are swapped (when they differ)

The mutant replaces the function in the in-memory index (all normalised views are reset) and the property's rules run
again.  A mutant is *reported* when a finding appears that the clean tree does not have, *undecided* when the run ends
with an ANALYSIS-ERROR only, and *silent* otherwise.  Most of these mutants change behaviour, but not necessarily the
behaviour the property talks about, so silence is not by itself a miss; the numbers (and the list of silent mutants, in the
evidence file) show which parts of the anchored functions no rule depends on.  The probe never influences the verdict."""

from __future__ import annotations

import ast
import copy
import os
import random

from .report import Report
from .srcindex import AnalysisError, Index

MAX_PER_FUNCTION = 40
MAX_TOTAL = 60  # the probe only reports; its size is bounded so that the thorough tier stays within a few minutes
FLIP = {ast.Eq: ast.NotEq, ast.NotEq: ast.Eq, ast.Lt: ast.LtE, ast.LtE: ast.Lt, ast.Gt: ast.GtE, ast.GtE: ast.Gt, ast.Is: ast.IsNot, ast.IsNot: ast.Is, ast.In: ast.NotIn, ast.NotIn: ast.In}


def _sites(fn: ast.AST):
    """(kind, path) for every mutation site; path = list of (field, index|None) from the function node."""
    out = []

    def walk(node: ast.AST, path):
        for fld, val in ast.iter_fields(node):
            if isinstance(val, list):
                for i, v in enumerate(val):
                    if isinstance(v, ast.AST):
                        visit(v, path + [(fld, i)])
            elif isinstance(val, ast.AST):
                visit(val, path + [(fld, None)])

    def visit(n: ast.AST, path):
        if isinstance(n, (ast.FunctionDef, ast.AsyncFunctionDef, ast.ClassDef, ast.Lambda)) and path:
            return
        if isinstance(n, ast.Expr) and isinstance(n.value, ast.Call):
            out.append(("DEL", path))
        elif isinstance(n, (ast.Assign, ast.AugAssign, ast.Delete)):
            out.append(("DEL", path))
        if isinstance(n, (ast.If, ast.While, ast.Assert)):
            out.append(("NEG", path))
        if isinstance(n, ast.Compare) and len(n.ops) == 1 and type(n.ops[0]) in FLIP:
            out.append(("CMP", path))
        if isinstance(n, ast.BoolOp):
            out.append(("BOOL", path))
        if isinstance(n, ast.Constant) and (isinstance(n.value, bool) or (isinstance(n.value, int) and n.value in (0, 1))):
            out.append(("CONST", path))
        if isinstance(n, ast.Call) and len(n.args) >= 2 and ast.unparse(n.args[0]) != ast.unparse(n.args[1]) and not any(isinstance(a, ast.Starred) for a in n.args[:2]):
            out.append(("SWAP", path))
        walk(n, path)

    walk(fn, [])
    return out


def _get(node: ast.AST, path):
    for fld, i in path:
        node = getattr(node, fld) if i is None else getattr(node, fld)[i]
    return node


def _set(root: ast.AST, path, new: ast.AST) -> None:
    parent = _get(root, path[:-1])
    fld, i = path[-1]
    if i is None:
        setattr(parent, fld, new)
    else:
        getattr(parent, fld)[i] = new


def mutate(fn: ast.AST, kind: str, path) -> tuple[ast.AST, str] | None:
    new = copy.deepcopy(fn)
    n = _get(new, path)
    desc = f"{kind}@{getattr(n, 'lineno', '?')}: {ast.unparse(n).splitlines()[0][:70]}"
    if kind == "DEL":
        _set(new, path, ast.copy_location(ast.Pass(), n))
    elif kind == "NEG":
        n.test = ast.copy_location(ast.UnaryOp(op=ast.Not(), operand=n.test), n.test)
    elif kind == "CMP":
        n.ops = [FLIP[type(n.ops[0])]()]
    elif kind == "BOOL":
        n.op = ast.Or() if isinstance(n.op, ast.And) else ast.And()
    elif kind == "CONST":
        n.value = (not n.value) if isinstance(n.value, bool) else (1 - n.value)
    elif kind == "SWAP":
        n.args[0], n.args[1] = n.args[1], n.args[0]
    else:
        return None
    ast.fix_missing_locations(new)
    return new, desc


def _reset(idx: Index) -> None:
    for mi in idx.modules.values():
        for f in mi.functions.values():
            f._norm = None
            f.__dict__.pop("_raw_view", None)


def _run(mod, idx: Index, prop: str):
    rep = Report(prop, "thorough")
    err = None
    try:
        mod.check(idx, rep, "quick")
    except AnalysisError as e:
        err = str(e)
    except Exception as e:  # a mutant may produce a shape no rule anticipated
        err = f"{type(e).__name__}: {e}"
    from .shapekeys import SHAPE_KEYS

    idents = {f.ident() for r in rep.rules for f in r.findings if (f.rule, f.key.split(":")[0]) not in SHAPE_KEYS}
    soft = {f.ident() for r in rep.rules for f in r.findings if (f.rule, f.key.split(":")[0]) in SHAPE_KEYS}
    return idents, bool(err or rep.analysis_errors or soft)


def probe(prop: str, mod, idx: Index, rep: Report) -> None:
    accessed = sorted(getattr(idx, "accessed", set()))
    r = rep.rule(f"{prop}.mutprobe", "mutation probe: syntactic mutants of every function the rules look at; how many of them the rules report (evidence of what the rules constrain; silent mutants are listed, not judged)")
    if not accessed:
        r.ok("probe", "the rules of this property sweep classes / modules and look up no single function: nothing to mutate")
        rep.extra["mutation_probe"] = {"functions": 0, "mutants": 0, "note": "no function lookups recorded"}
        return
    base, _ = _run(mod, idx, prop)
    rng = random.Random(int(os.environ.get("VERIF_SEED", "0") or 0))
    tot = rep_n = und = 0
    silent: list[str] = []
    per_fn = {}
    n_all = 0
    for relpath, qual in accessed:
        mi = idx.by_relpath.get(relpath)
        if mi is not None and qual in mi.functions:
            n_all += min(len(_sites(mi.functions[qual].raw_node)), MAX_PER_FUNCTION)
    scale = min(1.0, MAX_TOTAL / n_all) if n_all else 1.0
    for relpath, qual in accessed:
        mi = idx.by_relpath.get(relpath)
        if mi is None or qual not in mi.functions:
            continue
        fi = mi.functions[qual]
        orig = fi.raw_node
        sites = _sites(orig)
        if len(sites) > MAX_PER_FUNCTION:
            sites = rng.sample(sites, MAX_PER_FUNCTION)
        if scale < 1.0 and len(sites) > 2:
            sites = rng.sample(sites, max(2, round(len(sites) * scale)))
        k = v = 0
        for kind, path in sites:
            m = mutate(orig, kind, path)
            if m is None:
                continue
            new, desc = m
            fi.raw_node = new
            _reset(idx)
            try:
                got, undecided = _run(mod, idx, prop)
            finally:
                fi.raw_node = orig
            tot += 1
            k += 1
            if got - base:
                rep_n += 1
                v += 1
            elif undecided:
                und += 1
            else:
                if len(silent) < 400:
                    silent.append(f"{fi.fq} {desc}")
        per_fn[fi.fq] = (k, v)
    _reset(idx)
    r.ok("probe", f"{tot} mutants of {len(per_fn)} functions: {rep_n} reported as violations, {und} undecided (ANALYSIS-ERROR), {tot - rep_n - und} silent")
    rep.extra["mutation_probe"] = {
        "functions": len(per_fn),
        "mutants": tot,
        "reported": rep_n,
        "undecided": und,
        "silent": tot - rep_n - und,
        "per_function_reported_of_total": {k: f"{v[1]}/{v[0]}" for k, v in sorted(per_fn.items())},
        "silent_mutants_sample": silent[:120],
    }
