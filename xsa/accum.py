"""Change-accumulation analysis: does the boolean a function returns (or tests) reflect *every* change it observed?

Drivers of the form

    changed = step()            # a "source": True iff this step changed something
    changed |= other_step()
    result |= changed
    while changed: ...
    return result

are correct when the returned flag is True whenever any source was True.  With C = the disjunction of all source values
observed so far on a path, the analysis tracks must-facts about the boolean locals (a relational forward dataflow on the
CFG, meet = AND, greatest fixpoint):

    cover[x]      x >= C          (x is True if anything changed so far)
    joint[x, y]   x or y >= C
    ge[x, y]      x >= y
    truth[x]      x is True
    Z             C is False      (no source evaluated to a possible True yet)

Transfer functions are given for `x = <source>`, `x |= <source>`, `x = y`, `x |= y` / `x = x or y`, `x = False / True`, a
discarded source, and the True / False edges of tests on a local.  Nothing is executed; the result says, for each
`return <name>`, whether cover[<name>] holds there, and for each test node which facts hold (so that callers can ask
whether a loop condition covers all changes)."""

from __future__ import annotations

import ast
from typing import Callable

from .astutil import conjuncts
from .cfg import CFG


class State:
    __slots__ = ("cover", "joint", "ge", "truth", "Z")

    def __init__(self, names: list[str], top: bool = True):
        self.cover = {x: top for x in names}
        self.joint = {(x, y): top for x in names for y in names if x < y}
        self.ge = {(x, y): top for x in names for y in names if x != y}
        self.truth = {x: top for x in names}
        self.Z = top

    def copy(self) -> "State":
        s = State([])
        s.cover, s.joint, s.ge, s.truth, s.Z = dict(self.cover), dict(self.joint), dict(self.ge), dict(self.truth), self.Z
        return s

    def j(self, x: str, y: str) -> bool:
        return self.cover[x] if x == y else self.joint[(x, y) if x < y else (y, x)]

    def setj(self, x: str, y: str, v: bool) -> None:
        if x != y:
            self.joint[(x, y) if x < y else (y, x)] = v

    def close(self) -> None:
        names = list(self.cover)
        for _ in range(3):
            for x in names:
                if self.Z or self.truth[x]:
                    self.cover[x] = True
                for y in names:
                    if x != y and self.ge[(x, y)] and self.cover[y]:
                        self.cover[x] = True
                    if x != y and self.ge[(x, y)] and self.truth[y]:
                        self.truth[x] = True
            for x in names:
                for y in names:
                    if x < y and (self.cover[x] or self.cover[y]):
                        self.joint[(x, y)] = True

    def meet(self, o: "State") -> bool:
        ch = False
        for d, e in ((self.cover, o.cover), (self.joint, o.joint), (self.ge, o.ge), (self.truth, o.truth)):
            for k in d:
                if d[k] and not e[k]:
                    d[k] = False
                    ch = True
        if self.Z and not o.Z:
            self.Z = False
            ch = True
        return ch

    def key(self):
        return (tuple(sorted(self.cover.items())), tuple(sorted(self.joint.items())), tuple(sorted(self.ge.items())), tuple(sorted(self.truth.items())), self.Z)


def _forget(s: State, x: str) -> None:
    s.cover[x] = False
    s.truth[x] = False
    for y in s.cover:
        if y != x:
            s.setj(x, y, False)
            s.ge[(x, y)] = False
            s.ge[(y, x)] = False


def _new_change(s: State, into: str | None, fresh: bool) -> None:
    """a source value is evaluated; it is stored into `into` (fresh: assigned, else OR-ed in) or discarded (None)"""
    names = list(s.cover)
    old = s.copy()
    for y in names:
        if y != into:
            s.cover[y] = old.truth[y]
    for y in names:
        for z in names:
            if y < z and into not in (y, z):
                s.joint[(y, z)] = old.truth[y] or old.truth[z]
    if into is not None:
        x = into
        if fresh:
            s.cover[x] = old.Z
            s.truth[x] = False
            for y in names:
                if y != x:
                    s.setj(x, y, old.cover[y])
                    s.ge[(y, x)] = old.truth[y]
                    s.ge[(x, y)] = False
        else:
            s.cover[x] = old.cover[x]
            for y in names:
                if y != x:
                    s.setj(x, y, old.j(x, y))
                    s.ge[(y, x)] = old.truth[y]
                    s.ge[(x, y)] = old.ge[(x, y)]
    s.Z = False


def _copy(s: State, x: str, y: str) -> None:
    old = s.copy()
    names = list(s.cover)
    s.cover[x] = old.cover[y]
    s.truth[x] = old.truth[y]
    for z in names:
        if z in (x, y):
            continue
        s.setj(x, z, old.j(y, z))
        s.ge[(x, z)] = old.ge[(y, z)]
        s.ge[(z, x)] = old.ge[(z, y)]
    s.setj(x, y, old.cover[y])
    s.ge[(x, y)] = True
    s.ge[(y, x)] = True


def _or_in(s: State, x: str, y: str) -> None:
    old = s.copy()
    names = list(s.cover)
    s.cover[x] = old.cover[x] or old.cover[y] or old.j(x, y)
    s.truth[x] = old.truth[x] or old.truth[y]
    for z in names:
        if z in (x, y):
            continue
        s.setj(x, z, old.j(x, z) or old.j(y, z))
        s.ge[(x, z)] = old.ge[(x, z)] or old.ge[(y, z)]
        s.ge[(z, x)] = old.ge[(z, x)] and old.ge[(z, y)]
    s.ge[(x, y)] = True
    s.ge[(y, x)] = old.ge[(y, x)]
    s.setj(x, y, s.cover[x] or old.cover[y])


def _const(s: State, x: str, val: bool) -> None:
    old = s.copy()
    names = list(s.cover)
    if val:
        s.cover[x] = True
        s.truth[x] = True
        for y in names:
            if y != x:
                s.setj(x, y, True)
                s.ge[(x, y)] = True
                s.ge[(y, x)] = old.truth[y]
    else:
        s.cover[x] = old.Z
        s.truth[x] = False
        for y in names:
            if y != x:
                s.setj(x, y, old.cover[y])
                s.ge[(x, y)] = False
                s.ge[(y, x)] = True


def _assume(s: State, x: str, val: bool) -> None:
    names = list(s.cover)
    if val:
        s.truth[x] = True
        s.cover[x] = True
    else:
        for y in names:
            if y != x and s.j(x, y):
                s.cover[y] = True
        if s.cover[x]:
            s.Z = True
        for y in names:
            if y != x:
                s.ge[(y, x)] = True


def analyse(fn: ast.AST, cfg: CFG, is_source: Callable[[ast.AST], bool], names: list[str] | None = None):
    """Returns (states_before_node: dict[node id -> State], names).  `is_source(expr)` says whether an expression is a
    change report (call / attribute read / comparison, as the caller defines)."""
    if names is None:
        cand: set[str] = set()
        for n in ast.walk(fn):
            if isinstance(n, ast.Assign) and len(n.targets) == 1 and isinstance(n.targets[0], ast.Name):
                v = n.value
                if is_source(v) or (isinstance(v, ast.Constant) and isinstance(v.value, bool)):
                    cand.add(n.targets[0].id)
            elif isinstance(n, ast.AugAssign) and isinstance(n.target, ast.Name) and isinstance(n.op, ast.BitOr):
                cand.add(n.target.id)
            elif isinstance(n, ast.AnnAssign) and isinstance(n.target, ast.Name) and n.value is not None and (is_source(n.value) or (isinstance(n.value, ast.Constant) and isinstance(n.value.value, bool))):
                cand.add(n.target.id)
        # copies of candidates
        for _ in range(3):
            for n in ast.walk(fn):
                if isinstance(n, ast.Assign) and len(n.targets) == 1 and isinstance(n.targets[0], ast.Name) and isinstance(n.value, ast.Name) and n.value.id in cand:
                    cand.add(n.targets[0].id)
        names = sorted(cand)
    nameset = set(names)

    def transfer(node, s: State) -> State:
        a = node.ast
        s = s.copy()
        if node.kind != "stmt" or a is None:
            # a source evaluated inside a test and not stored: its value is discarded for accumulation purposes
            return s
        tgt = None
        val = None
        aug = False
        if isinstance(a, ast.Assign) and len(a.targets) == 1 and isinstance(a.targets[0], ast.Name):
            tgt, val = a.targets[0].id, a.value
        elif isinstance(a, ast.AnnAssign) and isinstance(a.target, ast.Name) and a.value is not None:
            tgt, val = a.target.id, a.value
        elif isinstance(a, ast.AugAssign) and isinstance(a.target, ast.Name):
            tgt, val, aug = a.target.id, a.value, True
        if tgt is not None and tgt in nameset:
            if aug and not isinstance(a.op, ast.BitOr):  # type: ignore[union-attr]
                _forget(s, tgt)
            elif is_source(val):
                _new_change(s, tgt, fresh=not aug)
            elif isinstance(val, ast.Name) and val.id in nameset:
                (_or_in if aug else _copy)(s, tgt, val.id)
            elif isinstance(val, ast.Constant) and isinstance(val.value, bool):
                if aug:
                    if val.value:
                        _const(s, tgt, True)
                else:
                    _const(s, tgt, val.value)
            elif not aug and isinstance(val, ast.BoolOp) and isinstance(val.op, ast.Or) and all((isinstance(v_, ast.Name) and v_.id in nameset) or is_source(v_) for v_ in val.values):
                # x = a or b or src   (x may be among the operands)
                parts = val.values
                if not any(isinstance(v_, ast.Name) and v_.id == tgt for v_ in parts):
                    first = parts[0]
                    if isinstance(first, ast.Name):
                        _copy(s, tgt, first.id)
                    else:
                        _new_change(s, tgt, fresh=True)
                    parts = parts[1:]
                for v_ in parts:
                    if isinstance(v_, ast.Name):
                        if v_.id != tgt:
                            _or_in(s, tgt, v_.id)
                    else:
                        # short-circuit: the source may not be evaluated at all when x is already True; then x covers
                        _new_change(s, tgt, fresh=False)
            elif not aug and isinstance(val, ast.BinOp) and isinstance(val.op, ast.BitOr) and all((isinstance(v_, ast.Name) and v_.id in nameset) or is_source(v_) for v_ in (val.left, val.right)):
                l_, r_ = val.left, val.right
                if isinstance(l_, ast.Name) and l_.id == tgt:
                    (_or_in(s, tgt, r_.id) if isinstance(r_, ast.Name) else _new_change(s, tgt, fresh=False))
                elif isinstance(r_, ast.Name) and r_.id == tgt:
                    (_or_in(s, tgt, l_.id) if isinstance(l_, ast.Name) else _new_change(s, tgt, fresh=False))
                else:
                    (_copy(s, tgt, l_.id) if isinstance(l_, ast.Name) else _new_change(s, tgt, fresh=True))
                    (_or_in(s, tgt, r_.id) if isinstance(r_, ast.Name) else _new_change(s, tgt, fresh=False))
            else:
                if any(is_source(x) for x in ast.walk(val)):
                    _new_change(s, None, fresh=True)
                _forget(s, tgt)
        else:
            # any other statement: a source whose value is not stored in a tracked local is a dropped change report
            for x in ast.walk(a):
                if isinstance(x, ast.expr) and is_source(x):
                    _new_change(s, None, fresh=True)
                    break
        s.close()
        return s

    def edge(node, lab, s: State) -> State:
        a = node.ast
        if lab not in ("T", "F") or a is None or not isinstance(a, ast.expr):
            return s
        s = s.copy()
        for atom, truth in conjuncts(a, lab == "T"):
            if isinstance(atom, ast.Name) and atom.id in nameset:
                _assume(s, atom.id, truth)
        s.close()
        return s

    IN: dict[int, State] = {}
    init = State(names, top=True)
    init.truth = {x: False for x in names}
    init.ge = {k: False for k in init.ge}
    init.close()
    IN[cfg.entry] = init
    work = [cfg.entry]
    it = 0
    while work and it < 20000:
        it += 1
        n = work.pop()
        out = transfer(cfg.nodes[n], IN[n])
        for m, lab in cfg.succ.get(n, []):
            if lab in ("exc", "assert"):
                continue
            so = edge(cfg.nodes[n], lab, out)
            if m not in IN:
                IN[m] = so.copy()
                work.append(m)
            elif IN[m].meet(so):
                work.append(m)
    return IN, names
