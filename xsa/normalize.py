"""Helper inlining: make "extract a block into a private helper" transparent to the rules.

`inline(fi)` returns a deep copy of a function's AST in which calls to *private helpers* — methods `self._h(...)` /
`Cls._h(...)` of the same class (or a base class in the same module) and module-level functions `_h(...)` of the same
module — are replaced by the helper's body.  A helper is only inlined when

* its name is not an anchor known to the rule set (any identifier `_name` that occurs in the source of
  /verif/xsa/rules/*.py is left as a call: the rules reason about those calls by name),
* it is small (<= 60 statements), not recursive, has plain positional/keyword parameters, no decorators other than
  `staticmethod`, and contains no `yield`, `await`, nested `def`/`class`/`lambda` capturing, `global`/`nonlocal`,
* the call site and the helper's returns allow a structured substitution:
    - `return helper(...)`             -> the body, returns kept (any shape),
    - `x = helper(...)` / `helper(...)` -> the body with every `return e` turned into `x = e` (resp. dropped), which
      requires all returns to be in tail position of the `if/else` tree (guard clauses `if c: return e` followed by
      more statements are restructured into `if c: x = e else: <rest>`); returns inside loops / try / with are not
      supported in this context,
    - any other expression context     -> only helpers of the form `return <expr>` (expression substitution).

Parameters bound to simple arguments (names, attribute chains, constants) are substituted; other arguments are
evaluated into a fresh local first (preserving evaluation order).  Locals of the helper are renamed when they clash
with names of the caller.  Nothing is executed; the transformation is purely syntactic and semantics-preserving for
the supported shapes, and a call that does not fit is simply left in place."""

from __future__ import annotations

import ast
import copy
import re
from pathlib import Path

MAX_STMTS = 60
MAX_DEPTH = 3

_KNOWN: set[str] | None = None


def known_anchor_names() -> set[str]:
    global _KNOWN
    if _KNOWN is None:
        names: set[str] = set()
        rules = Path(__file__).resolve().parent / "rules"
        for p in rules.glob("*.py"):
            names |= set(re.findall(r"\b_[A-Za-z][A-Za-z0-9_]*\b", p.read_text(encoding="utf-8")))
        _KNOWN = names
    return _KNOWN


def _count_stmts(body: list[ast.stmt]) -> int:
    return sum(1 for s in body for _ in ast.walk(s) if isinstance(_, ast.stmt))


def _is_docstring(st: ast.stmt) -> bool:
    return isinstance(st, ast.Expr) and isinstance(st.value, ast.Constant) and isinstance(st.value.value, str)


def _eligible(fn: ast.FunctionDef) -> bool:
    if isinstance(fn, ast.AsyncFunctionDef):
        return False
    for d in fn.decorator_list:
        if not (isinstance(d, ast.Name) and d.id == "staticmethod"):
            return False
    a = fn.args
    if a.vararg or a.kwarg or a.posonlyargs:
        return False
    if _count_stmts(fn.body) > MAX_STMTS:
        return False
    for n in ast.walk(fn):
        if n is fn:
            continue
        if isinstance(n, (ast.Yield, ast.YieldFrom, ast.Await, ast.FunctionDef, ast.AsyncFunctionDef, ast.ClassDef, ast.Global, ast.Nonlocal, ast.Lambda)):
            return False
    return True


def _assigned_names(fn: ast.AST) -> set[str]:
    out: set[str] = set()
    for n in ast.walk(fn):
        if isinstance(n, ast.Name) and isinstance(n.ctx, (ast.Store, ast.Del)):
            out.add(n.id)
        elif isinstance(n, ast.ExceptHandler) and n.name:
            out.add(n.name)
        elif isinstance(n, (ast.MatchAs, ast.MatchStar)) and n.name:
            out.add(n.name)
    return out


def _all_names(node: ast.AST) -> set[str]:
    return {n.id for n in ast.walk(node) if isinstance(n, ast.Name)}


def _simple_arg(e: ast.expr) -> bool:
    if isinstance(e, (ast.Name, ast.Constant)):
        return True
    if isinstance(e, ast.Attribute):
        return _simple_arg(e.value)
    return False


class _Renamer(ast.NodeTransformer):
    def __init__(self, subst: dict[str, ast.expr], rename: dict[str, str]):
        self.subst, self.rename = subst, rename

    def visit_Name(self, node: ast.Name):
        if node.id in self.rename:
            return ast.copy_location(ast.Name(id=self.rename[node.id], ctx=node.ctx), node)
        if node.id in self.subst and isinstance(node.ctx, ast.Load):
            return ast.copy_location(copy.deepcopy(self.subst[node.id]), node)
        return node

    def visit_ExceptHandler(self, node: ast.ExceptHandler):
        self.generic_visit(node)
        if node.name in self.rename:
            node.name = self.rename[node.name]
        return node


def _returns_outside_tail(body: list[ast.stmt]) -> bool:
    """Is there a `return` nested in a loop / try / with / match (where it cannot be turned into an assignment)?"""
    for st in body:
        if isinstance(st, (ast.For, ast.While, ast.Try, ast.With, ast.Match)) or (hasattr(ast, "TryStar") and isinstance(st, getattr(ast, "TryStar"))):
            if any(isinstance(n, ast.Return) for n in ast.walk(st)):
                return True
        elif isinstance(st, ast.If):
            if _returns_outside_tail(st.body) or _returns_outside_tail(st.orelse):
                return True
    return False


def _always_returns(body: list[ast.stmt]) -> bool:
    if not body:
        return False
    last = body[-1]
    if isinstance(last, (ast.Return, ast.Raise)):
        return True
    if isinstance(last, ast.If):
        return _always_returns(last.body) and bool(last.orelse) and _always_returns(last.orelse)
    return False


def _convert_returns(body: list[ast.stmt], make) -> list[ast.stmt] | None:
    """Rewrite `body` so that every `return e` becomes make(e) (a list of statements) and control falls through to the
    end of the list afterwards.  Requires returns in tail position; guard clauses are restructured.  None = unsupported."""
    out: list[ast.stmt] = []
    for i, st in enumerate(body):
        rest = body[i + 1 :]
        if isinstance(st, ast.Return):
            out.extend(make(st.value, st))
            return out  # statements after a return are dead
        if isinstance(st, ast.If) and any(isinstance(n, ast.Return) for n in ast.walk(st)):
            then_ret, else_ret = _always_returns(st.body), _always_returns(st.orelse) if st.orelse else False
            then_has = any(isinstance(n, ast.Return) for s in st.body for n in ast.walk(s))
            else_has = any(isinstance(n, ast.Return) for s in st.orelse for n in ast.walk(s))
            # the rest of the list belongs to every branch that does not return
            new_then = _convert_returns(st.body + ([] if then_ret else rest), make) if (then_has or not then_ret) else None
            new_else = _convert_returns((st.orelse or []) + ([] if else_ret else rest), make)
            if new_then is None or new_else is None:
                return None
            # a branch that raises keeps its raise; nothing to add
            new_if = ast.If(test=st.test, body=new_then or [ast.Pass()], orelse=new_else)
            out.append(ast.copy_location(new_if, st))
            return out
        out.append(st)
    return out


class Inliner:
    def __init__(self, module_functions: dict[str, "ast.FunctionDef"], class_methods: dict[str, "ast.FunctionDef"], class_names: set[str], self_name: str | None, own_name: str):
        self.mod_funcs = module_functions
        self.methods = class_methods
        self.class_names = class_names
        self.self_name = self_name
        self.stack = [own_name]
        self.counter = 0
        self.n_inlined = 0
        self.exprs_only = False  # only single-expression predicate / value helpers, in expression position
        self.peer_names: set[str] = set()  # parameters of the caller tested by isinstance(<p>, <own class>): same helpers apply

    # ---- callee resolution
    def resolve(self, call: ast.Call) -> tuple[ast.FunctionDef, bool] | None:
        """(callee, is_method) for an inlinable private helper call, else None"""
        f = call.func
        name = None
        is_method = False
        if isinstance(f, ast.Name) and f.id in self.mod_funcs:
            name, fn = f.id, self.mod_funcs[f.id]
        elif isinstance(f, ast.Attribute) and isinstance(f.value, ast.Name) and f.attr in self.methods and (f.value.id == self.self_name or f.value.id in self.class_names or f.value.id in self.peer_names):
            name, fn = f.attr, self.methods[f.attr]
            is_static = any(isinstance(d, ast.Name) and d.id == "staticmethod" for d in fn.decorator_list)
            if f.value.id in self.class_names and not is_static:
                return None  # unbound call with explicit self: leave
            is_method = not is_static
        else:
            return None
        if not name.startswith("_") or name.startswith("__") or name in known_anchor_names() or name in self.stack:
            return None
        if not _eligible(fn):
            return None
        if any(isinstance(a, ast.Starred) for a in call.args) or any(k.arg is None for k in call.keywords):
            return None
        return fn, is_method

    # ---- binding
    def bind(self, fn: ast.FunctionDef, is_method: bool, call: ast.Call, caller_names: set[str], result_name: str | None = None):
        params = [a.arg for a in fn.args.args]
        defaults = dict(zip(params[len(params) - len(fn.args.defaults) :], fn.args.defaults))
        for a, d in zip(fn.args.kwonlyargs, fn.args.kw_defaults):
            params.append(a.arg)
            if d is not None:
                defaults[a.arg] = d
        bound: dict[str, ast.expr] = {}
        pos = list(params)
        if is_method:
            selfp = pos.pop(0)
            recv = call.func.value.id if isinstance(call.func, ast.Attribute) and isinstance(call.func.value, ast.Name) and call.func.value.id in self.peer_names else self.self_name
            bound[selfp] = ast.Name(id=recv, ctx=ast.Load())
        npos = [p for p in pos if p not in {a.arg for a in fn.args.kwonlyargs}]
        if len(call.args) > len(npos):
            return None
        for p, a in zip(npos, call.args):
            bound[p] = a
        for k in call.keywords:
            if k.arg in bound or k.arg not in params:
                return None
            bound[k.arg] = k.value
        for p in params:
            if p not in bound:
                if p in defaults:
                    bound[p] = defaults[p]
                else:
                    return None
        assigned = _assigned_names(fn)
        self.counter += 1
        tag = f"__{fn.name.strip('_')}{self.counter}"
        subst: dict[str, ast.expr] = {}
        rename: dict[str, str] = {}
        pre: list[ast.stmt] = []
        body0 = [s_ for s_ in fn.body if not _is_docstring(s_)]
        first_hdr: list[ast.AST] = []
        if body0:
            f0 = body0[0]
            if isinstance(f0, (ast.For,)):
                first_hdr = [f0.iter]
            elif isinstance(f0, (ast.If, ast.While)):
                first_hdr = [f0.test]
            elif isinstance(f0, (ast.Assign, ast.AnnAssign, ast.AugAssign, ast.Return, ast.Expr)) and getattr(f0, "value", None) is not None:
                first_hdr = [f0.value]
        uses: dict[str, int] = {}
        for n_ in ast.walk(fn):
            if isinstance(n_, ast.Name) and isinstance(n_.ctx, ast.Load):
                uses[n_.id] = uses.get(n_.id, 0) + 1
        hdr_names = {n_.id for h in first_hdr for n_ in ast.walk(h) if isinstance(n_, ast.Name)}
        for p in params:
            a = bound[p]
            # an argument expression used exactly once, in the first expression the helper evaluates, can be substituted
            # in place (nothing of the helper runs between the call and that use)
            once_first = uses.get(p, 0) == 1 and p in hdr_names and p not in assigned and not any(isinstance(x, (ast.NamedExpr, ast.Yield, ast.Await)) for x in ast.walk(a))
            if (_simple_arg(a) or once_first) and p not in assigned:
                if isinstance(a, ast.Name) and a.id == p:
                    continue
                subst[p] = a
            else:
                newp = p + tag if (p in caller_names) else p
                if newp != p:
                    rename[p] = newp
                pre.append(ast.Assign(targets=[ast.Name(id=newp, ctx=ast.Store())], value=a, lineno=call.lineno, col_offset=call.col_offset))
        # return-variable coalescing: `x = helper(...)` where the helper always returns its local `r`: let `r` be `x`
        coalesced = None
        if result_name is not None and not any(isinstance(n_, ast.Name) and n_.id == result_name for a_ in list(call.args) + [k.value for k in call.keywords] for n_ in ast.walk(a_)):
            rets = [n_ for n_ in ast.walk(fn) if isinstance(n_, ast.Return)]
            rn = {n_.value.id for n_ in rets if isinstance(n_.value, ast.Name)}
            if rets and len(rn) == 1 and all(isinstance(n_.value, ast.Name) for n_ in rets):
                r_ = next(iter(rn))
                if r_ in assigned and r_ not in params and result_name not in (assigned - {r_}) and result_name not in params:
                    coalesced = r_
                    if r_ != result_name:
                        rename[r_] = result_name
        for n in assigned:
            if n in params or n == coalesced:
                continue
            if n in caller_names:
                rename[n] = n + tag
        body = [copy.deepcopy(s) for s in fn.body if not _is_docstring(s)]
        ren = _Renamer(subst, rename)
        body = [ren.visit(s) for s in body]
        return pre, body

    # ---- statement-level inlining
    def inline_stmt(self, st: ast.stmt, caller_names: set[str], depth: int) -> list[ast.stmt] | None:
        """Replacement statements for `st` if its top-level call is an inlinable helper call, else None."""
        call = None
        ctx = None
        if isinstance(st, ast.Expr) and isinstance(st.value, ast.Call):
            call, ctx = st.value, "stmt"
        elif isinstance(st, ast.Return) and isinstance(st.value, ast.Call):
            call, ctx = st.value, "return"
        elif isinstance(st, ast.Assign) and len(st.targets) == 1 and isinstance(st.targets[0], (ast.Name, ast.Attribute, ast.Tuple)) and isinstance(st.value, ast.Call):
            call, ctx = st.value, "assign"
        elif isinstance(st, ast.AnnAssign) and isinstance(st.target, ast.Name) and isinstance(st.value, ast.Call):
            call, ctx = st.value, "annassign"
        if call is None:
            return None
        r = self.resolve(call)
        if r is None:
            return None
        fn, is_method = r
        result_name = None
        if ctx in ("assign", "annassign"):
            t_ = st.targets[0] if isinstance(st, ast.Assign) else st.target
            if isinstance(t_, ast.Name):
                result_name = t_.id
        b = self.bind(fn, is_method, call, caller_names, result_name)
        if b is None:
            return None
        pre, body = b
        if ctx == "return":
            new = body
            if not _always_returns(body):
                new = body + [ast.Return(value=ast.Constant(value=None))]
        else:
            if ctx == "stmt" and body and isinstance(body[-1], (ast.While, ast.For)) and not body[-1].orelse:
                # a bare `return` inside the helper's final loop only leaves the loop: same as `break`
                body = body[:-1] + [_returns_to_breaks(body[-1])]
            if _returns_outside_tail(body):
                return None
            if ctx == "stmt":
                def make(v, at):
                    if v is not None and any(isinstance(n, ast.Call) for n in ast.walk(v)):
                        return [ast.copy_location(ast.Expr(value=v), at)]
                    return []
            else:
                target = st.targets[0] if isinstance(st, ast.Assign) else st.target

                def make(v, at, target=target):
                    val = v if v is not None else ast.Constant(value=None)
                    if isinstance(val, ast.Name) and isinstance(target, ast.Name) and val.id == target.id:
                        return []  # coalesced: the helper's result variable already is the target
                    return [ast.copy_location(ast.Assign(targets=[copy.deepcopy(target)], value=val), at)]
            new = _convert_returns(body, make)
            if new is None:
                return None
            if ctx != "stmt" and not _always_returns(body):
                # falling off the end returns None
                tail = make(None, st)
                new = _append_fallthrough(new, tail)
        self.n_inlined += 1
        out = pre + new
        for s in out:
            ast.fix_missing_locations(s)
        if depth < MAX_DEPTH:
            self.stack.append(fn.name)
            out = self.process_body(out, caller_names | _all_names(ast.Module(body=out, type_ignores=[])), depth + 1)
            self.stack.pop()
        return out or [ast.copy_location(ast.Pass(), st)]

    # ---- expression-level inlining (helpers of the form `return <expr>`)
    def inline_exprs(self, st: ast.stmt, caller_names: set[str]) -> None:
        outer = self

        class T(ast.NodeTransformer):
            def visit_Call(self, node: ast.Call):
                self.generic_visit(node)
                r = outer.resolve(node)
                if r is None:
                    return node
                fn, is_method = r
                body = [s for s in fn.body if not _is_docstring(s)]
                if len(body) > 1 and is_method:
                    fn, _ = propagate_aliases(fn)  # `op = self.op; return (op.a, op.b)` is a pure expression too
                    body = [s for s in fn.body if not _is_docstring(s)]
                if len(body) != 1 or not isinstance(body[0], ast.Return) or body[0].value is None:
                    return node
                b = outer.bind(fn, is_method, node, caller_names)
                if b is None:
                    return node
                pre, nb = b
                if pre:
                    return node  # would need a statement before an expression: leave the call
                outer.n_inlined += 1
                return ast.copy_location(nb[0].value, node)

            def visit_Lambda(self, node):
                return node

        # only the statement's own expressions, not nested statement bodies
        for fld, val in ast.iter_fields(st):
            if fld in ("body", "orelse", "finalbody", "handlers", "cases"):
                continue
            if isinstance(val, ast.AST):
                setattr(st, fld, T().visit(val))
            elif isinstance(val, list):
                setattr(st, fld, [T().visit(v) if isinstance(v, ast.AST) else v for v in val])

    def hoist_test(self, st: ast.stmt, caller_names: set[str], depth: int) -> list[ast.stmt] | None:
        """`if [not] helper(...):` / `return [not] helper(...)` with a multi-statement helper: evaluate the helper into a
        temporary first (`t = helper(...)`, inlined), then test the temporary.  The test is the first thing the
        statement evaluates, so the order of effects is unchanged."""
        holder = None
        if isinstance(st, ast.If):
            holder = "test"
        elif isinstance(st, ast.Return) and st.value is not None:
            holder = "value"
        if holder is None:
            return None
        e = getattr(st, holder)
        neg = False
        if isinstance(e, ast.UnaryOp) and isinstance(e.op, ast.Not):
            e, neg = e.operand, True
        if not isinstance(e, ast.Call) or (holder == "value" and not neg):
            return None
        r0 = self.resolve(e)
        if r0 is None:
            return None
        body0 = [s_ for s_ in r0[0].body if not _is_docstring(s_)]
        if len(body0) == 1 and isinstance(body0[0], ast.Return) and body0[0].value is not None:
            return None  # a single-expression helper is substituted in place by inline_exprs: the test stays a readable condition
        self.counter += 1
        tmp = f"__cond{self.counter}"
        asg = ast.copy_location(ast.Assign(targets=[ast.Name(id=tmp, ctx=ast.Store())], value=e), st)
        ast.fix_missing_locations(asg)
        rep = self.inline_stmt(asg, caller_names | {tmp}, depth)
        if rep is None:
            return None
        name = ast.copy_location(ast.Name(id=tmp, ctx=ast.Load()), e)
        setattr(st, holder, ast.copy_location(ast.UnaryOp(op=ast.Not(), operand=name), e) if neg else name)
        return rep

    def hoist_arg(self, st: ast.stmt, caller_names: set[str], depth: int) -> list[ast.stmt] | None:
        """`f(helper(...))` / `x = f(helper(...))` / `return f(helper(...))` with `f` a plain name / attribute chain and a
        multi-statement helper as FIRST argument: evaluate the helper into a temporary first.  Looking up `f` has no
        effect, so the helper call is the first thing the statement evaluates."""
        v = st.value if isinstance(st, (ast.Expr, ast.Return, ast.Assign)) else None
        if not isinstance(v, ast.Call) or not v.args or not _pure_chain(v.func) or not isinstance(v.args[0], ast.Call):
            return None
        if isinstance(st, ast.Assign) and not (len(st.targets) == 1 and isinstance(st.targets[0], ast.Name)):
            return None
        inner = v.args[0]
        if self.resolve(inner) is None:
            return None
        fn, _ = self.resolve(inner)  # type: ignore[misc]
        body = [s_ for s_ in fn.body if not _is_docstring(s_)]
        if len(body) == 1 and isinstance(body[0], ast.Return):
            return None  # expression-level inlining handles it
        self.counter += 1
        tmp = f"__arg{self.counter}"
        asg = ast.copy_location(ast.Assign(targets=[ast.Name(id=tmp, ctx=ast.Store())], value=inner), st)
        ast.fix_missing_locations(asg)
        rep = self.inline_stmt(asg, caller_names | {tmp}, depth)
        if rep is None:
            return None
        v.args[0] = ast.copy_location(ast.Name(id=tmp, ctx=ast.Load()), inner)
        return rep

    def process_body(self, body: list[ast.stmt], caller_names: set[str], depth: int = 0) -> list[ast.stmt]:
        out: list[ast.stmt] = []
        for st in body:
            if not self.exprs_only:
                rep = self.inline_stmt(st, caller_names, depth)
                if rep is not None:
                    out.extend(rep)
                    continue
                pre = self.hoist_test(st, caller_names, depth)
                if pre is not None:
                    out.extend(pre)
                pre = self.hoist_arg(st, caller_names, depth)
                if pre is not None:
                    out.extend(pre)
            self.inline_exprs(st, caller_names)
            for fld in ("body", "orelse", "finalbody"):
                sub = getattr(st, fld, None)
                if isinstance(sub, list) and sub and isinstance(sub[0], ast.stmt):
                    setattr(st, fld, self.process_body(sub, caller_names, depth))
            if isinstance(st, ast.Try):
                for h in st.handlers:
                    h.body = self.process_body(h.body, caller_names, depth)
            if isinstance(st, ast.Match):
                for c in st.cases:
                    c.body = self.process_body(c.body, caller_names, depth)
            out.append(st)
        return out


def _returns_to_breaks(loop: ast.stmt) -> ast.stmt:
    """In a loop that is the last statement of a helper called for effect: `return` (not inside a nested loop) -> `break`."""

    class T(ast.NodeTransformer):
        def __init__(self):
            self.depth = 0

        def visit_While(self, node):
            if self.depth:
                return node  # returns in nested loops cannot become a break of the outer loop
            self.depth += 1
            self.generic_visit(node)
            self.depth -= 1
            return node

        visit_For = visit_While

        def visit_Return(self, node: ast.Return):
            if node.value is None or isinstance(node.value, ast.Constant):
                return ast.copy_location(ast.Break(), node)
            return node

    return T().visit(loop)


def _append_fallthrough(stmts: list[ast.stmt], tail: list[ast.stmt]) -> list[ast.stmt]:
    """Add `tail` on every path that reaches the end of `stmts` without having executed a converted return.
    Converted returns end their branch (the list was cut there), so only an `if` at the very end can have a branch
    that falls through; a list that does not end in an if simply gets the tail appended."""
    if stmts and isinstance(stmts[-1], ast.If) and getattr(stmts[-1], "_xsa_ret", False):
        return stmts
    return stmts + tail


def _pure_chain(e: ast.expr) -> bool:
    """`self.a.b` / `name`: evaluating it has no effect and yields the same object while nothing is rebound"""
    if isinstance(e, ast.Name):
        return True
    if isinstance(e, ast.Attribute):
        return _pure_chain(e.value)
    return False


def propagate_aliases(fn: ast.FunctionDef) -> tuple[ast.FunctionDef, int]:
    """Replace a local that is bound exactly once, at the top level of the function body, to an attribute chain rooted
    at `self` (e.g. `stack = self._stack`) by that chain, provided the chain is not re-assigned anywhere in the function
    and the local is never rebound.  Mutations through either name are the same object either way."""
    if not fn.args.args:
        return fn, 0
    selfn = fn.args.args[0].arg
    params = {a.arg for a in fn.args.posonlyargs + fn.args.args + fn.args.kwonlyargs}
    stores: dict[str, int] = {}
    for n in ast.walk(fn):
        if isinstance(n, ast.Name) and isinstance(n.ctx, (ast.Store, ast.Del)):
            stores[n.id] = stores.get(n.id, 0) + 1
    attr_stores = set()
    for n in ast.walk(fn):
        if isinstance(n, ast.Attribute) and isinstance(n.ctx, (ast.Store, ast.Del)):
            attr_stores.add(ast.unparse(n))
    alias: dict[str, ast.expr] = {}
    drop: list[ast.stmt] = []
    def _ok(nm: str, val: ast.expr) -> bool:
        if stores.get(nm) != 1 or not isinstance(val, ast.Attribute) or not _pure_chain(val):
            return False
        root = val
        while isinstance(root, ast.Attribute):
            root = root.value
        if not (isinstance(root, ast.Name) and root.id == selfn):
            return False
        txt = ast.unparse(val)
        # the chain (or a prefix of it) must not be rebound in this function
        return not any(txt == a or txt.startswith(a + ".") for a in attr_stores)

    for st in fn.body:
        if isinstance(st, ast.Assign) and len(st.targets) == 1 and isinstance(st.targets[0], ast.Name):
            pairs = [(st.targets[0].id, st.value)]
        elif isinstance(st, ast.AnnAssign) and isinstance(st.target, ast.Name) and st.value is not None:
            pairs = [(st.target.id, st.value)]
        elif (
            isinstance(st, ast.Assign) and len(st.targets) == 1 and isinstance(st.targets[0], ast.Tuple) and isinstance(st.value, ast.Tuple)
            and len(st.targets[0].elts) == len(st.value.elts) and all(isinstance(t, ast.Name) for t in st.targets[0].elts)
        ):
            pairs = [(t.id, v) for t, v in zip(st.targets[0].elts, st.value.elts)]  # type: ignore[union-attr]
        else:
            continue
        if not all(_ok(nm, val) for nm, val in pairs):
            continue
        for nm, val in pairs:
            alias[nm] = val
        drop.append(st)
    if not alias:
        return fn, 0

    class T(ast.NodeTransformer):
        def visit_Name(self, node: ast.Name):
            if isinstance(node.ctx, ast.Load) and node.id in alias:
                return ast.copy_location(copy.deepcopy(alias[node.id]), node)
            return node

    new = copy.deepcopy(fn) if not getattr(fn, "_xsa_copy", False) else fn
    # recompute drop statements on the copy by position
    idxs = [fn.body.index(d) for d in drop]
    new.body = [T().visit(st) for i, st in enumerate(new.body) if i not in idxs] or [ast.Pass()]
    ast.fix_missing_locations(new)
    new._xsa_copy = True  # type: ignore[attr-defined]
    return new, len(alias)


def index_loops_to_zip(fn: ast.FunctionDef) -> tuple[ast.FunctionDef, int]:
    """`for i in range(len(A)): x = A[i]; y = B[i]; <rest without i>`  ->  `for x, y in zip(A, B): <rest>`
    (and the one-collection form `for x in A`).  The bound may be a local bound once to len(A).  The two forms differ
    only when the lengths differ (IndexError instead of truncation); rules that depend on the length comparison check
    it separately, as they do for zip."""
    stores: dict[str, int] = {}
    for n in ast.walk(fn):
        if isinstance(n, ast.Name) and isinstance(n.ctx, (ast.Store, ast.Del)):
            stores[n.id] = stores.get(n.id, 0) + 1
    lens: dict[str, str] = {}
    chains: dict[str, ast.expr] = {}
    for n in ast.walk(fn):
        if isinstance(n, ast.Assign) and len(n.targets) == 1 and isinstance(n.targets[0], ast.Name) and stores.get(n.targets[0].id) == 1:
            v = n.value
            if isinstance(v, ast.Attribute) and _pure_chain(v):
                chains[n.targets[0].id] = v
            if isinstance(v, ast.Call) and isinstance(v.func, ast.Name) and v.func.id == "len" and len(v.args) == 1:
                lens[n.targets[0].id] = ast.unparse(v.args[0])
    count = 0

    class T(ast.NodeTransformer):
        def visit_For(self, node: ast.For):
            nonlocal count
            self.generic_visit(node)
            if not (isinstance(node.target, ast.Name) and isinstance(node.iter, ast.Call) and isinstance(node.iter.func, ast.Name) and node.iter.func.id == "range" and len(node.iter.args) == 1 and not node.orelse):
                return node
            i = node.target.id
            b = node.iter.args[0]
            if isinstance(b, ast.Call) and isinstance(b.func, ast.Name) and b.func.id == "len" and len(b.args) == 1:
                bound = ast.unparse(b.args[0])
            elif isinstance(b, ast.Name) and b.id in lens:
                bound = lens[b.id]
            else:
                return node
            heads = []
            k = 0
            for st in node.body:
                if isinstance(st, ast.Assign) and len(st.targets) == 1 and isinstance(st.targets[0], ast.Name) and isinstance(st.value, ast.Subscript) and isinstance(st.value.slice, ast.Name) and st.value.slice.id == i and _pure_chain(st.value.value):
                    heads.append((st.targets[0].id, st.value.value))
                    k += 1
                else:
                    break
            if not heads or len(heads) > 2:
                return node
            rest = node.body[k:]
            if any(isinstance(x, ast.Name) and x.id == i for st in rest for x in ast.walk(st)):
                return node
            heads = [(nm, copy.deepcopy(chains[c.id]) if isinstance(c, ast.Name) and c.id in chains else c) for nm, c in heads]
            colls = [ast.unparse(c) for _, c in heads]
            bound = ast.unparse(chains[bound]) if bound in chains else bound
            if bound not in colls:
                return node
            if any(stores.get(nm, 0) != 1 for nm, _ in heads):
                return node
            if len(heads) == 1:
                new = ast.For(target=ast.Name(id=heads[0][0], ctx=ast.Store()), iter=heads[0][1], body=rest or [ast.Pass()], orelse=[], type_comment=None)
            else:
                new = ast.For(
                    target=ast.Tuple(elts=[ast.Name(id=h[0], ctx=ast.Store()) for h in heads], ctx=ast.Store()),
                    iter=ast.Call(func=ast.Name(id="zip", ctx=ast.Load()), args=[h[1] for h in heads], keywords=[]),
                    body=rest or [ast.Pass()], orelse=[], type_comment=None,
                )
            count += 1
            return ast.copy_location(new, node)

    probe = any(isinstance(n, ast.For) and isinstance(n.iter, ast.Call) and isinstance(n.iter.func, ast.Name) and n.iter.func.id == "range" for n in ast.walk(fn))
    if not probe:
        return fn, 0
    new = copy.deepcopy(fn) if not getattr(fn, "_xsa_copy", False) else fn
    new = T().visit(new)
    if count == 0:
        return fn, 0
    ast.fix_missing_locations(new)
    new._xsa_copy = True  # type: ignore[attr-defined]
    return new, count


_CURSOR = {("first_op", "next_op"): "ops", ("_first_op", "_next_op"): "ops", ("first_block", "next_block"): "blocks", ("_first_block", "_next_block"): "blocks"}


def lockstep_to_zip(fn: ast.FunctionDef) -> tuple[ast.FunctionDef, int]:
    """a = X.first_op; b = Y.first_op; while a is not None and b is not None: BODY; a = a.next_op; b = b.next_op
    ->  for a, b in zip(X.ops, Y.ops): BODY      (same for first_block / next_block -> blocks).
    The while loop stops when either list runs out, exactly like zip; BODY must not `continue` nor rebind a / b."""
    if not any(isinstance(n, ast.While) for n in ast.walk(fn)):
        return fn, 0
    count = 0

    def cursor_init(st: ast.stmt):
        if isinstance(st, ast.Assign) and len(st.targets) == 1 and isinstance(st.targets[0], ast.Name) and isinstance(st.value, ast.Attribute) and _pure_chain(st.value):
            return st.targets[0].id, st.value.value, st.value.attr
        return None

    def advance(st: ast.stmt):
        if isinstance(st, ast.Assign) and len(st.targets) == 1 and isinstance(st.targets[0], ast.Name) and isinstance(st.value, ast.Attribute) and isinstance(st.value.value, ast.Name) and st.value.value.id == st.targets[0].id:
            return st.targets[0].id, st.value.attr
        return None

    def rewrite(body: list[ast.stmt]) -> list[ast.stmt]:
        nonlocal count
        out: list[ast.stmt] = []
        for st in body:
            for fld in ("body", "orelse", "finalbody"):
                blk = getattr(st, fld, None)
                if isinstance(blk, list) and blk and isinstance(blk[0], ast.stmt):
                    setattr(st, fld, rewrite(blk))
            if isinstance(st, ast.Try):
                for h in st.handlers:
                    h.body = rewrite(h.body)
            done = False
            if isinstance(st, ast.While) and not st.orelse and isinstance(st.test, ast.BoolOp) and isinstance(st.test.op, ast.And) and len(st.test.values) == 2 and len(st.body) >= 2:
                names = []
                for v in st.test.values:
                    if isinstance(v, ast.Compare) and len(v.ops) == 1 and isinstance(v.ops[0], ast.IsNot) and isinstance(v.left, ast.Name) and isinstance(v.comparators[0], ast.Constant) and v.comparators[0].value is None:
                        names.append(v.left.id)
                adv = [advance(x) for x in st.body[-2:]]
                if len(names) == 2 and all(adv) and {a[0] for a in adv} == set(names) and adv[0][1] == adv[1][1]:
                    nxt = adv[0][1]
                    inner = st.body[:-2]
                    bad = any(isinstance(x, ast.Continue) for b in inner for x in ast.walk(b)) or any(isinstance(x, ast.Name) and isinstance(x.ctx, ast.Store) and x.id in names for b in inner for x in ast.walk(b))
                    # the two initialisations: the last stores to the cursors among the preceding statements of this list
                    inits = {}
                    for prev in reversed(out):
                        ci = cursor_init(prev)
                        if ci and ci[0] in names and ci[0] not in inits:
                            inits[ci[0]] = (prev, ci[1], ci[2])
                            continue
                        if any(isinstance(x, ast.Name) and isinstance(x.ctx, ast.Store) and x.id in names for x in ast.walk(prev)):
                            break
                    loads_in = sum(1 for x in ast.walk(st) if isinstance(x, ast.Name) and isinstance(x.ctx, ast.Load) and x.id in names)
                    loads_all = sum(1 for x in ast.walk(root) if isinstance(x, ast.Name) and isinstance(x.ctx, ast.Load) and x.id in names)
                    bad = bad or loads_all != loads_in  # a cursor read after the loop would see a different value
                    if not bad and len(inits) == 2 and inits[names[0]][2] == inits[names[1]][2] and (inits[names[0]][2], nxt) in _CURSOR:
                        coll = _CURSOR[(inits[names[0]][2], nxt)]
                        # the cursors must not be read after the loop
                        for nm in names:
                            out.remove(inits[nm][0])
                        new = ast.For(
                            target=ast.Tuple(elts=[ast.Name(id=nm, ctx=ast.Store()) for nm in names], ctx=ast.Store()),
                            iter=ast.Call(func=ast.Name(id="zip", ctx=ast.Load()), args=[ast.Attribute(value=inits[nm][1], attr=coll, ctx=ast.Load()) for nm in names], keywords=[]),
                            body=inner or [ast.Pass()], orelse=[], type_comment=None,
                        )
                        out.append(ast.copy_location(new, st))
                        count += 1
                        done = True
            if not done:
                out.append(st)
        return out

    new = copy.deepcopy(fn) if not getattr(fn, "_xsa_copy", False) else fn
    root = new
    new.body = rewrite(new.body)
    if count == 0:
        return fn, 0
    ast.fix_missing_locations(new)
    new._xsa_copy = True  # type: ignore[attr-defined]
    return new, count


def getattr_constants(fn: ast.FunctionDef) -> tuple[ast.FunctionDef, int]:
    """getattr(x, "name") with a constant identifier and no default  ->  x.name"""
    count = 0

    class T(ast.NodeTransformer):
        def visit_Call(self, node: ast.Call):
            nonlocal count
            self.generic_visit(node)
            if isinstance(node.func, ast.Name) and node.func.id == "getattr" and len(node.args) == 2 and not node.keywords and isinstance(node.args[1], ast.Constant) and isinstance(node.args[1].value, str) and node.args[1].value.isidentifier():
                count += 1
                return ast.copy_location(ast.Attribute(value=node.args[0], attr=node.args[1].value, ctx=ast.Load()), node)
            return node

    if not any(isinstance(n, ast.Call) and isinstance(n.func, ast.Name) and n.func.id == "getattr" for n in ast.walk(fn)):
        return fn, 0
    new = copy.deepcopy(fn) if not getattr(fn, "_xsa_copy", False) else fn
    new = T().visit(new)
    if count == 0:
        return fn, 0
    ast.fix_missing_locations(new)
    new._xsa_copy = True  # type: ignore[attr-defined]
    return new, count


def unroll_literal_loops(fn: ast.FunctionDef, module_assigns: dict[str, ast.AST] | None = None) -> tuple[ast.FunctionDef, int]:
    """`for a, b in ((x1, y1), (x2, y2)): BODY`  ->  BODY[a:=x1, b:=y1]; BODY[a:=x2, b:=y2]   (at most 4 literal
    elements of pure expressions, BODY without break / continue / rebinding of the targets).  A `return` in BODY keeps
    its meaning."""
    module_assigns = module_assigns or {}
    if not any(isinstance(n, ast.For) and (isinstance(n.iter, (ast.Tuple, ast.List)) or (isinstance(n.iter, ast.Name) and isinstance(module_assigns.get(n.iter.id), (ast.Tuple, ast.List)))) for n in ast.walk(fn)):
        return fn, 0
    count = 0

    def pure(e: ast.expr) -> bool:
        return _pure_chain(e) or isinstance(e, ast.Constant) or (isinstance(e, ast.Tuple) and all(pure(x) for x in e.elts))

    class T(ast.NodeTransformer):
        def visit_For(self, node: ast.For):
            nonlocal count
            self.generic_visit(node)
            it = node.iter
            if isinstance(it, ast.Name) and isinstance(module_assigns.get(it.id), (ast.Tuple, ast.List)):
                it = module_assigns[it.id]
            if not isinstance(it, (ast.Tuple, ast.List)) or not (1 <= len(it.elts) <= 6) or node.orelse or not all(pure(e) for e in it.elts):
                return node
            tg = node.target
            names = [tg.id] if isinstance(tg, ast.Name) else [e.id for e in tg.elts if isinstance(e, ast.Name)] if isinstance(tg, ast.Tuple) else []
            if not names or (isinstance(tg, ast.Tuple) and len(names) != len(tg.elts)):
                return node
            body_nodes = [x for st in node.body for x in ast.walk(st)]
            if any(isinstance(x, (ast.Break, ast.Continue)) for x in body_nodes):
                return node
            if any(isinstance(x, ast.Name) and isinstance(x.ctx, (ast.Store, ast.Del)) and x.id in names for x in body_nodes):
                return node
            out: list[ast.stmt] = []
            for el in it.elts:
                if isinstance(tg, ast.Name):
                    sub = {tg.id: el}
                else:
                    if not isinstance(el, (ast.Tuple, ast.List)) or len(el.elts) != len(names):
                        return node
                    sub = dict(zip(names, el.elts))
                for st in node.body:
                    out.append(_Renamer(sub, {}).visit(copy.deepcopy(st)))
            count += 1
            return out

    new = copy.deepcopy(fn) if not getattr(fn, "_xsa_copy", False) else fn
    new = T().visit(new)
    if count == 0:
        return fn, 0
    ast.fix_missing_locations(new)
    new._xsa_copy = True  # type: ignore[attr-defined]
    return new, count


def expand_literal_quantifiers(fn: ast.FunctionDef, module_assigns: dict[str, ast.AST]) -> tuple[ast.FunctionDef, int]:
    """any(P(t) for t in T) / all(...) where T is a literal tuple / list of at most 6 plain names or attribute chains,
    written inline or bound once at module level:  ->  P(t1) or P(t2) or ...  (and for all).  Same evaluation order and
    short-circuiting."""
    count = 0

    def literal(it: ast.expr):
        if isinstance(it, ast.Name) and it.id in module_assigns:
            it = module_assigns[it.id]
        if isinstance(it, (ast.Tuple, ast.List)) and 1 <= len(it.elts) <= 6 and all(_pure_chain(e) or isinstance(e, ast.Constant) for e in it.elts):
            return it.elts
        return None

    class T(ast.NodeTransformer):
        def visit_Call(self, node: ast.Call):
            nonlocal count
            self.generic_visit(node)
            if not (isinstance(node.func, ast.Name) and node.func.id in ("any", "all") and len(node.args) == 1 and not node.keywords and isinstance(node.args[0], ast.GeneratorExp)):
                return node
            g = node.args[0]
            if len(g.generators) != 1 or g.generators[0].ifs or not isinstance(g.generators[0].target, ast.Name):
                return node
            elts = literal(g.generators[0].iter)
            if elts is None:
                return node
            var = g.generators[0].target.id
            vals = [_Renamer({var: e}, {}).visit(copy.deepcopy(g.elt)) for e in elts]
            count += 1
            if len(vals) == 1:
                return ast.copy_location(vals[0], node)
            return ast.copy_location(ast.BoolOp(op=ast.Or() if node.func.id == "any" else ast.And(), values=vals), node)

    if not any(isinstance(n, ast.Call) and isinstance(n.func, ast.Name) and n.func.id in ("any", "all") for n in ast.walk(fn)):
        return fn, 0
    new = copy.deepcopy(fn) if not getattr(fn, "_xsa_copy", False) else fn
    new = T().visit(new)
    if count == 0:
        return fn, 0
    ast.fix_missing_locations(new)
    new._xsa_copy = True  # type: ignore[attr-defined]
    return new, count


def update_zip_to_loop(fn: ast.FunctionDef) -> tuple[ast.FunctionDef, int]:
    """`d.update(zip(A, B))` as a statement  ->  `for _k, _v in zip(A, B): d[_k] = _v`  (same order, same stores)"""
    if not any(isinstance(n, ast.Call) and isinstance(n.func, ast.Attribute) and n.func.attr == "update" for n in ast.walk(fn)):
        return fn, 0
    count = 0

    class T(ast.NodeTransformer):
        def visit_Expr(self, node: ast.Expr):
            nonlocal count
            c = node.value
            if isinstance(c, ast.Call) and isinstance(c.func, ast.Attribute) and c.func.attr == "update" and _pure_chain(c.func.value) and len(c.args) == 1 and not c.keywords and isinstance(c.args[0], ast.Call) and isinstance(c.args[0].func, ast.Name) and c.args[0].func.id == "zip" and len(c.args[0].args) == 2:
                count += 1
                k, v = f"__k{count}", f"__v{count}"
                loop = ast.For(
                    target=ast.Tuple(elts=[ast.Name(id=k, ctx=ast.Store()), ast.Name(id=v, ctx=ast.Store())], ctx=ast.Store()),
                    iter=c.args[0],
                    body=[ast.Assign(targets=[ast.Subscript(value=c.func.value, slice=ast.Name(id=k, ctx=ast.Load()), ctx=ast.Store())], value=ast.Name(id=v, ctx=ast.Load()))],
                    orelse=[], type_comment=None,
                )
                return ast.copy_location(loop, node)
            return node

    new = copy.deepcopy(fn) if not getattr(fn, "_xsa_copy", False) else fn
    new = T().visit(new)
    if count == 0:
        return fn, 0
    ast.fix_missing_locations(new)
    new._xsa_copy = True  # type: ignore[attr-defined]
    return new, count


def expand_splats(fn: ast.FunctionDef) -> tuple[ast.FunctionDef, int]:
    """`t = (a, b)` ... `f(*t)`  ->  `f(a, b)`  and  `d = {"k": v}` ... `f(**d)`  ->  `f(k=v)`  when t / d is bound exactly
    once, at the top level of the function, to a literal of pure elements, is used only in splat positions, and none of the
    names the elements mention is re-bound after that binding."""
    if not any(isinstance(n, ast.Call) and (any(isinstance(a, ast.Starred) for a in n.args) or any(k.arg is None for k in n.keywords)) for n in ast.walk(fn)):
        return fn, 0
    binds: dict[str, list[ast.stmt]] = {}
    for st in ast.walk(fn):
        tg = st.targets[0] if isinstance(st, ast.Assign) and len(st.targets) == 1 else st.target if isinstance(st, ast.AnnAssign) and st.value is not None else None
        if isinstance(tg, ast.Name):
            binds.setdefault(tg.id, []).append(st)
    stores: dict[str, list[int]] = {}
    for n in ast.walk(fn):
        if isinstance(n, ast.Name) and isinstance(n.ctx, (ast.Store, ast.Del)):
            stores.setdefault(n.id, []).append(n.lineno)
    pure = lambda e: _pure_chain(e) or isinstance(e, ast.Constant)
    cands: dict[str, ast.expr] = {}
    for nm, sts in binds.items():
        if len(sts) != 1 or len(stores.get(nm, [])) != 1 or sts[0] not in fn.body:
            continue
        v = sts[0].value
        if isinstance(v, (ast.Tuple, ast.List)) and all(pure(e) for e in v.elts):
            parts = list(v.elts)
        elif isinstance(v, ast.Dict) and all(isinstance(k, ast.Constant) and isinstance(k.value, str) and k.value.isidentifier() for k in v.keys) and all(pure(e) for e in v.values):
            parts = list(v.values)
        else:
            continue
        mentioned = {x.id for e in parts for x in ast.walk(e) if isinstance(x, ast.Name)}
        if any(ln >= sts[0].lineno for m in mentioned for ln in stores.get(m, [])):
            continue
        cands[nm] = v
    if not cands:
        return fn, 0
    # every load of a candidate must be a splat of the matching kind
    splat_ids: set[int] = set()
    for n in ast.walk(fn):
        if isinstance(n, ast.Call):
            for a in n.args:
                if isinstance(a, ast.Starred) and isinstance(a.value, ast.Name) and isinstance(cands.get(a.value.id), (ast.Tuple, ast.List)):
                    splat_ids.add(id(a.value))
            for k in n.keywords:
                if k.arg is None and isinstance(k.value, ast.Name) and isinstance(cands.get(k.value.id), ast.Dict):
                    splat_ids.add(id(k.value))
    for n in ast.walk(fn):
        if isinstance(n, ast.Name) and isinstance(n.ctx, ast.Load) and n.id in cands and id(n) not in splat_ids:
            cands.pop(n.id, None)
    if not cands:
        return fn, 0
    count = 0
    new = copy.deepcopy(fn) if not getattr(fn, "_xsa_copy", False) else fn
    for n in ast.walk(new):
        if not isinstance(n, ast.Call):
            continue
        args: list[ast.expr] = []
        for a in n.args:
            if isinstance(a, ast.Starred) and isinstance(a.value, ast.Name) and isinstance(cands.get(a.value.id), (ast.Tuple, ast.List)):
                args.extend(copy.deepcopy(e) for e in cands[a.value.id].elts)
                count += 1
            else:
                args.append(a)
        kws: list[ast.keyword] = []
        for k in n.keywords:
            if k.arg is None and isinstance(k.value, ast.Name) and isinstance(cands.get(k.value.id), ast.Dict):
                d = cands[k.value.id]
                kws.extend(ast.keyword(arg=kk.value, value=copy.deepcopy(vv)) for kk, vv in zip(d.keys, d.values))
                count += 1
            else:
                kws.append(k)
        n.args, n.keywords = args, kws
    if count == 0:
        return fn, 0
    ast.fix_missing_locations(new)
    new._xsa_copy = True  # type: ignore[attr-defined]
    return new, count


def split_tuple_compares(fn: ast.FunctionDef) -> tuple[ast.FunctionDef, int]:
    """`(a1, a2) == (b1, b2)`  ->  `a1 == b1 and a2 == b2`;  `!=`  ->  `a1 != b1 or a2 != b2`  (literal tuples of the same
    length whose elements are plain names / attribute chains / constants: the element comparisons run in the same order)."""
    def cand(n: ast.AST) -> bool:
        return (
            isinstance(n, ast.Compare) and len(n.ops) == 1 and isinstance(n.ops[0], (ast.Eq, ast.NotEq)) and isinstance(n.left, ast.Tuple)
            and isinstance(n.comparators[0], ast.Tuple) and len(n.left.elts) == len(n.comparators[0].elts) >= 1
            and all(_pure_chain(e) or isinstance(e, ast.Constant) for e in n.left.elts + n.comparators[0].elts)
        )

    if not any(cand(n) for n in ast.walk(fn)):
        return fn, 0
    count = 0

    class T(ast.NodeTransformer):
        def visit_Compare(self, node: ast.Compare):
            nonlocal count
            self.generic_visit(node)
            if not cand(node):
                return node
            count += 1
            parts = [ast.Compare(left=a, ops=[type(node.ops[0])()], comparators=[b]) for a, b in zip(node.left.elts, node.comparators[0].elts)]
            if len(parts) == 1:
                return ast.copy_location(parts[0], node)
            return ast.copy_location(ast.BoolOp(op=ast.And() if isinstance(node.ops[0], ast.Eq) else ast.Or(), values=parts), node)

    new = copy.deepcopy(fn) if not getattr(fn, "_xsa_copy", False) else fn
    new = T().visit(new)
    ast.fix_missing_locations(new)
    new._xsa_copy = True  # type: ignore[attr-defined]
    return new, count


def _leftmost_walrus(t: ast.expr):
    """(walrus, path) when the first leaf the test evaluates is `(name := value)`"""
    cur = t
    path = []
    while True:
        if isinstance(cur, ast.NamedExpr):
            return cur, path
        if isinstance(cur, ast.Compare):
            path.append((cur, "left"))
            cur = cur.left
        elif isinstance(cur, ast.BoolOp):
            path.append((cur, "values0"))
            cur = cur.values[0]
        elif isinstance(cur, ast.UnaryOp):
            path.append((cur, "operand"))
            cur = cur.operand
        else:
            return None, path


def local_normalise(fn: ast.FunctionDef) -> ast.FunctionDef:
    """Always-safe, purely local canonicalisation of a function body (applied to the normalised and to the as-written view):
      * `t = E` directly followed by `return t`, t bound and read nowhere else  ->  `return E`
      * `if a: (if b: X)` with no else on either level and nothing else in the outer body  ->  `if a and b: X`
      * `if c: <block ending in return / raise / continue / break> else: REST`  ->  `if c: ...` followed by REST
      * `if (x := E) ...:` (walrus evaluated first, not an elif)  ->  `x = E` / `if x ...:`
    The node itself is returned when nothing applies."""
    def _term(body):
        return bool(body) and isinstance(body[-1], (ast.Return, ast.Raise, ast.Continue, ast.Break))

    need = False
    for n in ast.walk(fn):
        if isinstance(n, ast.If) and _leftmost_walrus(n.test)[0] is not None:
            need = True
            break
        if isinstance(n, ast.If):
            if (not n.orelse and len(n.body) == 1 and isinstance(n.body[0], ast.If) and not n.body[0].orelse) or (n.orelse and _term(n.body)):
                need = True
                break
        if isinstance(n, ast.Return) and isinstance(n.value, ast.Name):
            need = True
            break
    if not need:
        return fn
    # the binding of a return temporary reaches nothing but that return; only global / nonlocal names are observable
    declared = {nm for n in ast.walk(fn) if isinstance(n, (ast.Global, ast.Nonlocal)) for nm in n.names}
    changed = 0

    def block(stmts: list[ast.stmt]) -> list[ast.stmt]:
        nonlocal changed
        out: list[ast.stmt] = []
        i = 0
        stmts = list(stmts)
        while i < len(stmts):
            st = stmts[i]
            for fld in ("body", "orelse", "finalbody"):
                v = getattr(st, fld, None)
                if isinstance(v, list) and v and isinstance(v[0], ast.stmt) and not isinstance(st, ast.ClassDef):
                    if fld == "orelse" and isinstance(st, ast.If) and len(v) == 1 and isinstance(v[0], ast.If):
                        v[0]._xsa_elif = True  # type: ignore[attr-defined]  # hoisting in front of an elif would run before the earlier tests
                    setattr(st, fld, block(v))
            for h in getattr(st, "handlers", []) or []:
                h.body = block(h.body)
            for c in getattr(st, "cases", []) or []:
                c.body = block(c.body)
            # a walrus that is the first thing an `if` test evaluates (not an elif: `stmts` holds plain statements of a block;
            # an elif is the single statement of an orelse block and is left alone)
            if isinstance(st, ast.If) and not getattr(st, "_xsa_elif", False):
                w_, path_ = _leftmost_walrus(st.test)
                if w_ is not None and isinstance(w_.target, ast.Name):
                    out.append(ast.copy_location(ast.Assign(targets=[ast.Name(id=w_.target.id, ctx=ast.Store())], value=w_.value), st))
                    repl = ast.copy_location(ast.Name(id=w_.target.id, ctx=ast.Load()), w_)
                    if not path_:
                        st.test = repl
                    else:
                        par_, fld_ = path_[-1]
                        if fld_ == "left":
                            par_.left = repl
                        elif fld_ == "values0":
                            par_.values[0] = repl
                        else:
                            par_.operand = repl
                    changed += 1
            # nested ifs
            while isinstance(st, ast.If) and not st.orelse and len(st.body) == 1 and isinstance(st.body[0], ast.If) and not st.body[0].orelse:
                inner = st.body[0]
                vals = (st.test.values if isinstance(st.test, ast.BoolOp) and isinstance(st.test.op, ast.And) else [st.test]) + (inner.test.values if isinstance(inner.test, ast.BoolOp) and isinstance(inner.test.op, ast.And) else [inner.test])
                st = ast.copy_location(ast.If(test=ast.copy_location(ast.BoolOp(op=ast.And(), values=list(vals)), st.test), body=inner.body, orelse=[]), st)
                changed += 1
            # else after a terminating body
            if isinstance(st, ast.If) and st.orelse and _term(st.body) and not (len(st.orelse) == 1 and isinstance(st.orelse[0], ast.If) and not _term(st.orelse[0].body) and False):
                rest = st.orelse
                st.orelse = []
                stmts[i + 1 : i + 1] = rest
                changed += 1
            # return temporaries
            if isinstance(st, ast.Assign) and len(st.targets) == 1 and isinstance(st.targets[0], ast.Name) and i + 1 < len(stmts) and isinstance(stmts[i + 1], ast.Return) and isinstance(stmts[i + 1].value, ast.Name) and stmts[i + 1].value.id == st.targets[0].id and st.targets[0].id not in declared:
                out.append(ast.copy_location(ast.Return(value=st.value), st))
                changed += 1
                i += 2
                continue
            out.append(st)
            i += 1
        return out

    new = copy.deepcopy(fn) if not getattr(fn, "_xsa_copy", False) else fn
    new.body = block(new.body)
    if not changed:
        return fn
    ast.fix_missing_locations(new)
    new._xsa_copy = True  # type: ignore[attr-defined]
    return new


def inline_pure(fi) -> ast.AST:
    """The function as written, except that calls of private single-expression helpers (`def _p(a, b): return <expr>`) in
    expression position are replaced by that expression: what a predicate helper tests is then visible to guard-fact
    readers.  Used for the as-written view (no statement-level inlining, so no helper site is reported twice)."""
    return local_normalise(_inline_helpers(fi, exprs_only=True))


def inline(fi) -> ast.AST:
    """Normalised copy of fi.raw_node: private helpers inlined, field aliases propagated (the node itself when
    nothing applies)."""
    new = _inline_helpers(fi)
    is_method = fi.cls is not None and not any(isinstance(d, ast.Name) and d.id in ("staticmethod", "classmethod") for d in fi.raw_node.decorator_list)
    if is_method:
        new, _ = propagate_aliases(new)
    new, _ = index_loops_to_zip(new)
    new, _ = lockstep_to_zip(new)
    new, _ = unroll_literal_loops(new, getattr(fi.module, "assigns", {}))
    new, _ = getattr_constants(new)
    new, _ = update_zip_to_loop(new)
    new, _ = expand_literal_quantifiers(new, getattr(fi.module, "assigns", {}))
    new, _ = expand_splats(new)
    new, _ = split_tuple_compares(new)
    new = local_normalise(new)
    return new


def _inline_helpers(fi, exprs_only: bool = False) -> ast.AST:
    fn = fi.raw_node
    mod = fi.module
    mod_funcs = {q: f.raw_node for q, f in mod.functions.items() if f.cls is None and "." not in q}
    methods: dict[str, ast.FunctionDef] = {}
    class_names: set[str] = set()
    if fi.cls is not None:
        # the class itself and its bases defined in the same module
        seen = []
        todo = [fi.cls]
        while todo:
            c = todo.pop(0)
            if c in seen:
                continue
            seen.append(c)
            class_names.add(c.name)
            for nm, defs in c.methods.items():
                for d in defs:
                    if not any(x.endswith(("overload", ".setter", "property")) for x in d.decorator_names()):
                        methods.setdefault(nm, d.raw_node)
            for be in c.base_exprs:
                bn = be.id if isinstance(be, ast.Name) else None
                if bn and bn in mod.classes:
                    todo.append(mod.classes[bn])
    # quick pre-check: any candidate call at all?
    cand = False
    selfn = fn.args.args[0].arg if (fi.cls is not None and fn.args.args and not any(isinstance(d, ast.Name) and d.id == "staticmethod" for d in fn.decorator_list)) else None
    known = known_anchor_names()
    for n in ast.walk(fn):
        if isinstance(n, ast.Call):
            f = n.func
            nm = f.id if isinstance(f, ast.Name) else (f.attr if isinstance(f, ast.Attribute) else None)
            if nm and nm.startswith("_") and not nm.startswith("__") and nm not in known and (nm in mod_funcs or nm in methods):
                cand = True
                break
    if not cand:
        return fn
    new = copy.deepcopy(fn)
    inl = Inliner(mod_funcs, methods, class_names, selfn, fn.name)
    inl.exprs_only = exprs_only
    if selfn is not None:
        params = {a.arg for a in fn.args.args[1:]}
        stored = {n.id for n in ast.walk(fn) if isinstance(n, ast.Name) and isinstance(n.ctx, (ast.Store, ast.Del))}
        for n in ast.walk(fn):
            if isinstance(n, ast.Call) and isinstance(n.func, ast.Name) and n.func.id == "isinstance" and len(n.args) == 2 and isinstance(n.args[0], ast.Name) and isinstance(n.args[1], ast.Name):
                if n.args[0].id in params and n.args[0].id not in stored and n.args[1].id == fi.cls.name:
                    inl.peer_names.add(n.args[0].id)
    names = _all_names(new) | {a.arg for a in new.args.args}
    new.body = inl.process_body(new.body, names)
    if inl.n_inlined == 0:
        return fn
    ast.fix_missing_locations(new)
    new._xsa_inlined = inl.n_inlined  # type: ignore[attr-defined]
    new._xsa_copy = True  # type: ignore[attr-defined]
    return new
