"""CLI: /venv/bin/python -m xsa.check <ID> --tier quick|thorough   (cwd /verif)

exit 0: every rule instance holds or is a listed known finding
exit 1: VIOLATION property=<id> replay=<path>
exit 2: ANALYSIS-ERROR (vanished anchor, unsupported construct, instance floor not reached, crash)
"""

from __future__ import annotations

import argparse
import importlib
import os
import sys
import traceback

from .report import Report
from .srcindex import AnalysisError, get_index


def run(prop: str, tier: str) -> int:
    try:
        mod = importlib.import_module(f"xsa.rules.{prop.lower()}")
    except ModuleNotFoundError:
        print(f"ANALYSIS-ERROR property={prop}: no rule module")
        return 2
    try:
        idx = get_index()
        rep = Report(prop, tier)
        try:
            explanation = mod.check(idx, rep, tier)
        except AnalysisError as e:
            # a rule group that could not be evaluated does not erase the findings of the groups that ran before it:
            # report.finish gives a VIOLATION precedence over "cannot decide"
            rep.analysis_errors.append(str(e))
            explanation = (mod.__doc__ or "").strip().split("\n\n")[0] or "rule evaluation stopped early (see analysis_errors)"
        except Exception:
            traceback.print_exc()
            rep.analysis_errors.append("internal error in the checker (see traceback)")
            explanation = (mod.__doc__ or "").strip().split("\n\n")[0] or "rule evaluation stopped early (see analysis_errors)"
        from . import memo_rule

        rep.run(memo_rule.check, idx, rep, prop)
        if tier == "thorough":
            from . import mutprobe, selftest

            rep.run(selftest.run_for, prop, mod, rep)  # a failing self-test is "cannot decide"; it never erases a finding
            rep.run(mutprobe.probe, prop, mod, idx, rep)
        return rep.finish(explanation, idx)
    except AnalysisError as e:
        print(f"ANALYSIS-ERROR property={prop}: {e}")
        return 2
    except Exception:  # a traceback must never look like a violation
        traceback.print_exc()
        print(f"ANALYSIS-ERROR property={prop}: internal error in the checker (see traceback)")
        return 2


def main(argv: list[str] | None = None) -> int:
    ap = argparse.ArgumentParser()
    ap.add_argument("prop")
    ap.add_argument("--tier", default=os.environ.get("VERIF_TIER", "quick"), choices=["quick", "thorough"])
    a = ap.parse_args(argv)
    return run(a.prop.upper(), a.tier)


if __name__ == "__main__":
    sys.exit(main())
