"""Source index: parses every xdsl/**/*.py of the current tree (never imports it).

Provides module / class / function tables, decorators, base-class resolution and an MRO
approximation.  An anchor that vanished raises AnchorMissing, which the CLI maps to
ANALYSIS-ERROR / exit 2 (never a silent pass).
"""

from __future__ import annotations

import ast
import hashlib
import os
from dataclasses import dataclass, field
from pathlib import Path


class AnalysisError(Exception):
    """The analysis cannot be carried out (vanished anchor, unsupported construct, floor)."""


class AnchorMissing(AnalysisError):
    pass


def repo_root() -> Path:
    return Path(os.environ.get("XSA_REPO", "/repo"))


@dataclass
class FuncInfo:
    module: "ModuleInfo"
    qualname: str  # e.g. "Operation.clone" or "top_level_fn"
    raw_node: ast.FunctionDef | ast.AsyncFunctionDef  # the definition as written
    cls: "ClassInfo | None" = None
    _norm: "ast.AST | None" = None

    @property
    def node(self) -> ast.FunctionDef | ast.AsyncFunctionDef:
        """The definition with calls to private helpers inlined (xsa.normalize): what the rules analyse.
        Identical to raw_node when nothing is inlinable.  Set XSA_NO_INLINE=1 to analyse the code as written."""
        if self._norm is None:
            if os.environ.get("XSA_NO_INLINE"):
                self._norm = self.raw_node
            else:
                from .normalize import inline

                try:
                    self._norm = inline(self)
                except RecursionError:
                    self._norm = self.raw_node
        return self._norm  # type: ignore[return-value]

    def as_raw(self) -> "FuncInfo":
        """The same function, analysed as written (no helper inlining): for sweeps that visit every function of a
        module anyway, where inlining would only report a helper's sites a second time in each caller."""
        r = getattr(self, "_raw_view", None)
        if r is None:
            node = self.raw_node
            if not os.environ.get("XSA_NO_INLINE"):
                from .normalize import inline_pure

                try:
                    node = inline_pure(self)  # local canonical form; only single-expression private helpers are inlined
                except RecursionError:
                    node = self.raw_node
            r = FuncInfo(self.module, self.qualname, self.raw_node, self.cls, node)
            object.__setattr__(self, "_raw_view", r)
        return r

    @property
    def name(self) -> str:
        return self.raw_node.name

    @property
    def fq(self) -> str:
        return f"{self.module.name}.{self.qualname}"

    @property
    def loc(self) -> str:
        return f"{self.module.relpath}:{self.raw_node.lineno}"

    def decorator_names(self) -> list[str]:
        return [dotted(d.func if isinstance(d, ast.Call) else d) for d in self.raw_node.decorator_list]


@dataclass
class ClassInfo:
    module: "ModuleInfo"
    qualname: str
    node: ast.ClassDef
    methods: dict[str, list[FuncInfo]] = field(default_factory=dict)  # name -> defs (setter/getter)
    base_exprs: list[ast.expr] = field(default_factory=list)

    @property
    def name(self) -> str:
        return self.node.name

    @property
    def fq(self) -> str:
        return f"{self.module.name}.{self.qualname}"

    @property
    def loc(self) -> str:
        return f"{self.module.relpath}:{self.node.lineno}"

    def decorator_names(self) -> list[str]:
        return [dotted(d.func if isinstance(d, ast.Call) else d) for d in self.node.decorator_list]

    def method(self, name: str, kind: str | None = None) -> FuncInfo | None:
        """kind: None = plain/first, 'setter', 'getter'."""
        defs = self.methods.get(name, [])
        defs = [d for d in defs if not any(x.endswith("overload") for x in d.decorator_names())] or defs
        for f in defs:
            decs = f.decorator_names()
            is_setter = any(d.endswith(".setter") for d in decs)
            if kind == "setter" and is_setter:
                return f
            if kind in (None, "getter") and not is_setter:
                return f
        return None

    def ann_fields(self) -> list[tuple[str, ast.expr | None, ast.expr | None]]:
        """Class-level annotated assignments: (name, annotation, default)."""
        out = []
        for st in self.node.body:
            if isinstance(st, ast.AnnAssign) and isinstance(st.target, ast.Name):
                out.append((st.target.id, st.annotation, st.value))
        return out

    def class_assigns(self) -> dict[str, ast.expr]:
        out: dict[str, ast.expr] = {}
        for st in self.node.body:
            if isinstance(st, ast.Assign) and len(st.targets) == 1 and isinstance(st.targets[0], ast.Name):
                out[st.targets[0].id] = st.value
            elif isinstance(st, ast.AnnAssign) and isinstance(st.target, ast.Name) and st.value is not None:
                out[st.target.id] = st.value
        return out


@dataclass
class ModuleInfo:
    name: str  # dotted, e.g. xdsl.ir.core
    relpath: str  # e.g. xdsl/ir/core.py
    path: Path
    tree: ast.Module
    source: str
    classes: dict[str, ClassInfo] = field(default_factory=dict)  # by qualname
    functions: dict[str, FuncInfo] = field(default_factory=dict)  # top-level + methods by qualname
    imports: dict[str, str] = field(default_factory=dict)  # local name -> dotted target
    assigns: dict[str, ast.expr] = field(default_factory=dict)  # module-level NAME = expr
    star_imports: list[str] = field(default_factory=list)  # modules imported with `from m import *`


def raw_funcs(mi: "ModuleInfo"):
    """All functions of a module as written (see FuncInfo.as_raw)."""
    return [f.as_raw() for f in mi.functions.values()]


def dotted(node: ast.AST) -> str:
    if isinstance(node, ast.Name):
        return node.id
    if isinstance(node, ast.Attribute):
        return dotted(node.value) + "." + node.attr
    if isinstance(node, ast.Subscript):
        return dotted(node.value)
    if isinstance(node, ast.Call):
        return dotted(node.func)
    return "?"


class Index:
    def __init__(self, root: Path | None = None, package: str = "xdsl"):
        self.root = Path(root) if root else repo_root()
        self.package = package
        self.modules: dict[str, ModuleInfo] = {}
        self.by_relpath: dict[str, ModuleInfo] = {}
        self.classes_by_name: dict[str, list[ClassInfo]] = {}
        self.n_files = 0
        self.n_functions = 0
        self._digest = hashlib.sha1()
        self._load()

    # ------------------------------------------------------------------ loading
    def _load(self) -> None:
        pkg_dir = self.root / self.package
        if not pkg_dir.is_dir():
            raise AnchorMissing(f"package directory {pkg_dir} not found")
        for path in sorted(pkg_dir.rglob("*.py")):
            rel = path.relative_to(self.root).as_posix()
            try:
                src = path.read_text(encoding="utf-8")
                tree = ast.parse(src, filename=str(path))
            except SyntaxError as e:  # a tree that does not compile cannot be analysed
                raise AnalysisError(f"cannot parse {rel}: {e}") from e
            self._digest.update(rel.encode())
            self._digest.update(src.encode())
            modname = rel[:-3].replace("/", ".")
            if modname.endswith(".__init__"):
                modname = modname[: -len(".__init__")]
            mi = ModuleInfo(modname, rel, path, tree, src)
            self._index_module(mi)
            self.modules[modname] = mi
            self.by_relpath[rel] = mi
            self.n_files += 1

    def _index_module(self, mi: ModuleInfo) -> None:
        is_pkg = mi.relpath.endswith("__init__.py")
        for st in ast.walk(mi.tree):
            if isinstance(st, ast.Import):
                for a in st.names:
                    mi.imports.setdefault(a.asname or a.name.split(".")[0], a.name if a.asname else a.name.split(".")[0])
            elif isinstance(st, ast.ImportFrom):
                base = st.module or ""
                if st.level:
                    parts = mi.name.split(".")
                    if not is_pkg:
                        parts = parts[:-1]
                    parts = parts[: len(parts) - (st.level - 1)]
                    base = ".".join(parts + ([st.module] if st.module else []))
                for a in st.names:
                    if a.name == "*":
                        mi.star_imports.append(base)
                        continue
                    mi.imports.setdefault(a.asname or a.name, f"{base}.{a.name}")
        for st in mi.tree.body:
            if isinstance(st, ast.Assign) and len(st.targets) == 1 and isinstance(st.targets[0], ast.Name):
                mi.assigns[st.targets[0].id] = st.value
            elif isinstance(st, ast.AnnAssign) and isinstance(st.target, ast.Name) and st.value is not None:
                mi.assigns[st.target.id] = st.value

        def visit(body: list[ast.stmt], prefix: str, cls: ClassInfo | None) -> None:
            for st in body:
                if isinstance(st, (ast.FunctionDef, ast.AsyncFunctionDef)):
                    q = prefix + st.name
                    fi = FuncInfo(mi, q, st, cls)
                    if cls is not None:
                        cls.methods.setdefault(st.name, []).append(fi)
                    # keep first plain def under the bare qualname, setters under "<q>.setter"
                    decs = fi.decorator_names()
                    key = q + ".setter" if any(d.endswith(".setter") for d in decs) else q
                    prev = mi.functions.get(key)
                    if prev is None or any(d.endswith("overload") for d in prev.decorator_names()):
                        mi.functions[key] = fi  # typing.overload stubs are replaced by the implementation
                    self.n_functions += 1
                    # nested defs (closures) are indexed under "<q>.<locals>."
                    visit(st.body, q + ".<locals>.", None)
                elif isinstance(st, ast.ClassDef):
                    q = prefix + st.name
                    ci = ClassInfo(mi, q, st, base_exprs=list(st.bases))
                    mi.classes[q] = ci
                    self.classes_by_name.setdefault(st.name, []).append(ci)
                    visit(st.body, q + ".", ci)
                elif isinstance(st, (ast.If, ast.Try, ast.With)):
                    for sub in ast.iter_child_nodes(st):
                        if isinstance(sub, list):
                            pass
                    inner: list[ast.stmt] = []
                    for fld in ("body", "orelse", "finalbody"):
                        inner.extend(getattr(st, fld, []) or [])
                    for h in getattr(st, "handlers", []) or []:
                        inner.extend(h.body)
                    visit(inner, prefix, cls)

        visit(mi.tree.body, "", None)

    # ------------------------------------------------------------------ lookup
    @property
    def digest(self) -> str:
        return self._digest.hexdigest()

    def module(self, relpath_or_name: str) -> ModuleInfo:
        m = self.by_relpath.get(relpath_or_name) or self.modules.get(relpath_or_name)
        if m is None:
            raise AnchorMissing(f"module {relpath_or_name} not found in {self.root}")
        return m

    def cls(self, module: str, qualname: str) -> ClassInfo:
        m = self.module(module)
        c = m.classes.get(qualname)
        if c is None:
            raise AnchorMissing(f"class {qualname} not found in {m.relpath}")
        return c

    def func(self, module: str, qualname: str) -> FuncInfo:
        m = self.module(module)
        f = m.functions.get(qualname)
        if f is None:
            raise AnchorMissing(f"function {qualname} not found in {m.relpath}")
        if not hasattr(self, "accessed"):
            self.accessed = set()
        self.accessed.add((m.relpath, qualname))  # which functions the rules anchor on (used by the mutation probe)
        return f

    def try_func(self, module: str, qualname: str) -> FuncInfo | None:
        try:
            return self.func(module, qualname)
        except AnchorMissing:
            return None

    def all_classes(self):
        for m in self.modules.values():
            yield from m.classes.values()

    def all_functions(self):
        for m in self.modules.values():
            yield from m.functions.values()

    # ------------------------------------------------------------------ resolution
    def resolve_dotted(self, mi: ModuleInfo, name: str, _depth: int = 0):
        """Resolve a dotted name used inside module `mi` to ClassInfo | FuncInfo | ModuleInfo |
        ('assign', ModuleInfo, name, expr) | None."""
        if _depth > 8:
            return None
        parts = name.split(".")
        head, rest = parts[0], parts[1:]
        cur = None
        if head in mi.classes:
            cur = mi.classes[head]
        elif head in mi.functions:
            cur = mi.functions[head]
        elif head in mi.imports:
            cur = self._resolve_abs(mi.imports[head], _depth + 1)
        elif head in mi.assigns:
            cur = ("assign", mi, head, mi.assigns[head])
        if cur is None:
            for sm in mi.star_imports:
                cur = self._resolve_abs(f"{sm}.{head}", _depth + 1)
                if cur is not None:
                    break
        if cur is None:
            return None
        for p in rest:
            cur = self._member(cur, p, _depth + 1)
            if cur is None:
                return None
        return cur

    def _resolve_abs(self, dotted_name: str, _depth: int = 0):
        if _depth > 8:
            return None
        # longest module prefix
        parts = dotted_name.split(".")
        for i in range(len(parts), 0, -1):
            mod = ".".join(parts[:i])
            if mod in self.modules:
                cur = self.modules[mod]
                for p in parts[i:]:
                    cur = self._member(cur, p, _depth + 1)
                    if cur is None:
                        return None
                return cur
        return None

    def _member(self, cur, p: str, _depth: int):
        if isinstance(cur, ModuleInfo):
            if p in cur.classes:
                return cur.classes[p]
            if p in cur.functions:
                return cur.functions[p]
            if p in cur.imports:
                return self._resolve_abs(cur.imports[p], _depth + 1)
            sub = self.modules.get(cur.name + "." + p)
            if sub is not None:
                return sub
            if p in cur.assigns:
                return ("assign", cur, p, cur.assigns[p])
            for sm in cur.star_imports:
                r = self._resolve_abs(f"{sm}.{p}", _depth + 1)
                if r is not None:
                    return r
            return None
        if isinstance(cur, ClassInfo):
            q = cur.qualname + "." + p
            if q in cur.module.classes:
                return cur.module.classes[q]
            for c in self.mro(cur):
                f = c.method(p)
                if f is not None:
                    return f
                ca = c.class_assigns()
                if p in ca:
                    return ("assign", c.module, c.qualname + "." + p, ca[p])
            return None
        if isinstance(cur, tuple) and cur[0] == "assign":
            # alias: NAME = other.dotted.name
            expr = cur[3]
            if isinstance(expr, (ast.Name, ast.Attribute)):
                tgt = self.resolve_dotted(cur[1], dotted(expr), _depth + 1)
                if tgt is not None:
                    return self._member(tgt, p, _depth + 1)
        return None

    def resolve_class(self, mi: ModuleInfo, expr: ast.expr) -> ClassInfo | None:
        if isinstance(expr, ast.Subscript):
            expr = expr.value
        if isinstance(expr, ast.Constant) and isinstance(expr.value, str):
            name = expr.value
        else:
            name = dotted(expr)
        if "?" in name:
            return None
        r = self.resolve_dotted(mi, name)
        seen = 0
        while isinstance(r, tuple) and r[0] == "assign" and seen < 5:
            e = r[3]
            if isinstance(e, ast.Subscript):
                e = e.value
            if not isinstance(e, (ast.Name, ast.Attribute)):
                return None
            r = self.resolve_dotted(r[1], dotted(e))
            seen += 1
        return r if isinstance(r, ClassInfo) else None

    def bases(self, ci: ClassInfo) -> list[ClassInfo]:
        out = []
        for b in ci.base_exprs:
            r = self.resolve_class(ci.module, b)
            if r is not None:
                out.append(r)
        return out

    def mro(self, ci: ClassInfo) -> list[ClassInfo]:
        """Approximate MRO: depth-first, left-to-right, duplicates removed keeping the last
        occurrence (good enough for single inheritance + mixins used in xDSL)."""
        order: list[ClassInfo] = []
        seen: set[int] = set()

        def go(c: ClassInfo, depth: int) -> None:
            if depth > 30:
                return
            order.append(c)
            for b in self.bases(c):
                go(b, depth + 1)

        go(ci, 0)
        res: list[ClassInfo] = []
        for c in reversed(order):
            if id(c) not in seen:
                seen.add(id(c))
                res.append(c)
        res.reverse()
        # keep ci first
        return res

    def is_subclass(self, ci: ClassInfo, fq_or_name: str) -> bool:
        return any(c.fq == fq_or_name or c.name == fq_or_name for c in self.mro(ci))

    def subclasses(self, base_name: str) -> list[ClassInfo]:
        return [c for c in self.all_classes() if c.name != base_name and self.is_subclass(c, base_name)]

    def find_method(self, ci: ClassInfo, name: str, kind: str | None = None) -> FuncInfo | None:
        for c in self.mro(ci):
            f = c.method(name, kind)
            if f is not None:
                return f
        return None


_INDEX: Index | None = None


def get_index() -> Index:
    global _INDEX
    if _INDEX is None:
        _INDEX = Index()
    return _INDEX
