"""Thorough tier: test the checker both ways on scratch copies of the consulted sources.

* benign twin: every source file is re-emitted with ast.unparse (comments, layout, parenthesisation,
  string quoting and line numbers all change; behaviour does not): the rule set must report exactly the
  same findings as on the real tree;
* seeded variants: every change kept under /verif/seeded/*/ for this property is applied to a scratch
  copy: the rule set must report at least one finding that the unchanged tree does not have.

Scratch copies live in a private temporary directory outside /repo and /verif and are removed.
Nothing of xdsl is imported or executed here either: the scratch trees are only parsed.
"""

from __future__ import annotations

import ast
import json
import os
import shutil
import subprocess
import tempfile
from pathlib import Path

from .report import Report
from .srcindex import AnalysisError, Index, repo_root

SEEDED = Path(__file__).resolve().parent.parent / "seeded"


def _idents(rep: Report) -> set[tuple[str, str, str]]:
    return {f.ident() for r in rep.rules for f in r.findings}


def _run(mod, root: Path, prop: str) -> tuple[set[tuple[str, str, str]], list[str]]:
    idx = Index(root)
    rep = Report(prop, "thorough")
    try:
        mod.check(idx, rep, "quick")
    except AnalysisError as e:  # as in xsa.check / tools/runall.py: a rule group that stops does not erase earlier findings
        rep.analysis_errors.append(str(e))
    from . import memo_rule

    rep.run(memo_rule.check, idx, rep, prop)
    return _idents(rep), list(rep.analysis_errors)


def _copy_tree(dst: Path) -> None:
    src = repo_root() / "xdsl"
    shutil.copytree(src, dst / "xdsl", ignore=shutil.ignore_patterns("__pycache__", "*.pyc"))


def _seed_worker(arg) -> tuple[str, str, list, list[str]]:
    """one seeded change: copy the analysed tree, apply the patch, run the property's rules on it (separate process)"""
    import importlib

    name, patch, tmp, prop, modname = arg
    var = Path(tmp) / f"var_{name}"
    var.mkdir()
    try:
        _copy_tree(var)
        pr = subprocess.run(["git", "apply", str(patch)], cwd=var, capture_output=True, text=True)
        if pr.returncode != 0:
            return name, "noapply", [], [pr.stderr.strip()[:120]]
        try:
            got, errs = _run(importlib.import_module(modname), var, prop)
        except AnalysisError as e:
            return name, "ran", [], [str(e)]
        return name, "ran", sorted(got), errs
    finally:
        shutil.rmtree(var, ignore_errors=True)


def _twin_worker(arg) -> tuple[int, list, list[str]]:
    """one metamorphic twin: copy the analysed tree, rewrite it, run the property's rules on it (separate process)"""
    import importlib

    from .metamorph import rewrite_tree

    tname, tmp, prop, modname = arg
    mt = Path(tmp) / f"mm_{tname}"
    mt.mkdir()
    try:
        _copy_tree(mt)
        nfiles = rewrite_tree(tname, mt)
        got, errs = _run(importlib.import_module(modname), mt, prop)
        return nfiles, sorted(got), errs
    except AnalysisError as e:
        return 0, [], [f"{tname}: {e}"]
    finally:
        shutil.rmtree(mt, ignore_errors=True)


def run_for(prop: str, mod, rep: Report) -> None:
    r = rep.rule(f"{prop}.selftest", "checker tested both ways: silent on a behaviour-preserving re-emission of every source file and on the metamorphic rewrites of every function of xsa/metamorph.py (renamed locals, inverted / nested / flattened conditionals, walrus in and out, De Morgan, return temporaries, guard clauses, conditional expressions vs statements, comprehensions vs loops, match vs if-chain, swapped comparisons, any() vs flag loop, compound conditions extracted into predicate helpers); fires on every seeded change kept for this property")
    base = _idents(rep)
    tmp = Path(tempfile.mkdtemp(prefix="xsa_selftest_"))
    try:
        # ---- benign twin
        twin = tmp / "twin"
        twin.mkdir()
        _copy_tree(twin)
        n = 0
        for p in (twin / "xdsl").rglob("*.py"):
            try:
                src = p.read_text(encoding="utf-8")
                p.write_text(ast.unparse(ast.parse(src)) + "\n", encoding="utf-8")
                n += 1
            except SyntaxError:
                pass
        got, errs = _run(mod, twin, prop)
        if errs:
            raise AnalysisError(f"self-test: analysis errors on the re-emitted tree: {errs[:2]}")
        if got == base:
            r.ok("benign-twin:ast.unparse", f"{n} files re-emitted with ast.unparse: identical findings ({len(base)})")
        else:
            extra, lost = sorted(got - base), sorted(base - got)
            raise AnalysisError(f"self-test: the rules are sensitive to formatting: extra findings {extra[:3]}, lost findings {lost[:3]} on a behaviour-preserving re-emission")
        # ---- metamorphic twins: behaviour-preserving syntactic rewrites of every function (xsa/metamorph.py).  A finding
        # that appears or disappears on such a twin means a recogniser reads spelling, not meaning.
        from .metamorph import TRANSFORMS, rewrite_tree

        names = [t for t in TRANSFORMS if t != "identity"]
        import concurrent.futures as _cf
        import multiprocessing as _mp

        with _cf.ProcessPoolExecutor(max_workers=min(len(names), max(1, (os.cpu_count() or 2) // 2)), mp_context=_mp.get_context("fork")) as ex:
            results = list(ex.map(_twin_worker, [(tname, str(tmp), prop, mod.__name__) for tname in names]))
        for tname, (nfiles, got_l, errs) in zip(names, results):
            got = {tuple(x) for x in got_l}
            extra, lost = sorted(got - base), sorted(base - got)
            if extra:
                raise AnalysisError(f"self-test: the rules are sensitive to the behaviour-preserving rewrite `{tname}`: extra findings {extra[:3]}")
            if errs or lost:
                # not a false alarm, but the rewrite is not decided: recorded, not fatal (exit code unchanged)
                r.notes.append(f"metamorphic twin `{tname}`: not decided ({(errs or lost)[:1]})")
                r.ok(f"metamorphic:{tname}", f"{nfiles} files rewritten with `{tname}`: no extra finding (undecided: {len(errs)} analysis errors, {len(lost)} findings not reproduced)")
            else:
                r.ok(f"metamorphic:{tname}", f"{nfiles} files rewritten with `{tname}`: identical findings ({len(base)})")
        rep.extra["selftest_metamorphic_twins"] = len(TRANSFORMS) - 1
        # ---- seeded variants
        seeds = []
        if SEEDED.is_dir():
            for d in sorted(SEEDED.iterdir()):
                meta = d / "meta.json"
                if not meta.exists():
                    continue
                m = json.loads(meta.read_text())
                if prop in m.get("detected_by", []) and (d / "patch.diff").exists():
                    seeds.append((d.name, d / "patch.diff"))
        import concurrent.futures as _cf2
        import multiprocessing as _mp2

        lost = None
        if seeds:
            with _cf2.ProcessPoolExecutor(max_workers=min(len(seeds), max(1, (os.cpu_count() or 2) // 2)), mp_context=_mp2.get_context("fork")) as ex:
                results = list(ex.map(_seed_worker, [(name, str(patch), str(tmp), prop, mod.__name__) for name, patch in seeds]))
            for name, status, got_l, errs in results:
                if status == "noapply":
                    r.notes.append(f"seeded change {name} no longer applies to the current tree (skipped): {errs[:1]}")
                    continue
                new = sorted({tuple(x) for x in got_l} - base)
                if new:
                    r.ok(f"seeded:{name}", f"seeded change {name}: reported as {new[0][0]} [{new[0][2][:50]}]")
                elif lost is None:
                    lost = (name, errs)
        if lost is not None:
            raise AnalysisError(f"self-test: seeded change {lost[0]} is no longer detected by the {prop} rules (analysis errors: {lost[1][:1]})")
        rep.extra["selftest_seeded_variants"] = len(seeds)
    finally:
        shutil.rmtree(tmp, ignore_errors=True)
