"""Findings, known-findings matching, evidence files, exit codes."""

from __future__ import annotations

import json
import os
import time
from dataclasses import dataclass, field
from pathlib import Path

VERIF = Path(__file__).resolve().parent.parent
KNOWN_FILE = VERIF / "known_findings.json"
EVIDENCE_DIR = Path(os.environ["XSA_EVIDENCE_DIR"]) if os.environ.get("XSA_EVIDENCE_DIR") else VERIF / "evidence"  # override only for scratch-variant runs of the tools


@dataclass
class Finding:
    rule: str  # e.g. "C07.R3"
    construct: str  # qualified construct, e.g. xdsl.parser.core.Parser._parse_block
    key: str  # stable discriminator inside (rule, construct): never a line number
    message: str
    loc: str = ""  # file:line (printed, never compared)
    path: list[str] = field(default_factory=list)  # optional path / call chain for diagnosis

    def ident(self) -> tuple[str, str, str]:
        return (self.rule, self.construct, self.key)

    def to_json(self) -> dict:
        return {
            "rule": self.rule,
            "construct": self.construct,
            "key": self.key,
            "message": self.message,
            "loc": self.loc,
            "path": self.path,
        }


@dataclass
class RuleResult:
    rule: str
    description: str
    instances: int = 0  # rule instances (obligations) evaluated
    discharged: int = 0
    nontrivial: set = field(default_factory=set)  # distinct instances that matched a real site
    samples: list = field(default_factory=list)
    findings: list[Finding] = field(default_factory=list)
    floor: int | None = None  # minimum number of instances confirmed by hand
    notes: list[str] = field(default_factory=list)

    def ok(self, instance: str, sample: str | None = None) -> None:
        self.instances += 1
        self.discharged += 1
        self.nontrivial.add(instance)
        if sample is not None and len(self.samples) < 6:
            self.samples.append(sample)
        elif sample is None and len(self.samples) < 3:
            self.samples.append(instance)

    def fail(self, instance: str, finding: Finding) -> None:
        self.instances += 1
        self.nontrivial.add(instance)
        self.findings.append(finding)
        if len(self.samples) < 8:
            self.samples.append(f"{instance} -> FINDING {finding.key}")


class Report:
    def __init__(self, prop: str, tier: str):
        self.prop = prop
        self.tier = tier
        self.rules: list[RuleResult] = []
        self.t0 = time.time()
        self.assumptions: list[str] = []
        self.extra: dict = {}
        self.analysis_errors: list[str] = []

    def run(self, fn, *args) -> None:
        """Run one group of rules; an AnalysisError inside it is recorded (exit 2 unless a real violation
        is found elsewhere, which takes precedence) instead of aborting the other groups."""
        from .srcindex import AnalysisError

        try:
            fn(*args)
        except AnalysisError as e:
            self.analysis_errors.append(f"{getattr(fn, '__name__', '?')}: {e}")
        except Exception as e:  # a crash of one rule group is "cannot decide" for that group, never a verdict, and it
            # must not erase what the other groups found
            import traceback

            traceback.print_exc()
            self.analysis_errors.append(f"{getattr(fn, '__name__', '?')}: internal error in the checker ({type(e).__name__}: {str(e)[:120]})")

    def rule(self, rule: str, description: str, floor: int | None = None) -> RuleResult:
        r = RuleResult(rule, description, floor=floor)
        self.rules.append(r)
        return r

    # ------------------------------------------------------------------
    def finish(self, explanation: str, index=None) -> int:
        from .srcindex import AnalysisError

        for r in self.rules:
            if r.floor is not None and r.instances < max(1, (r.floor * 3 + 4) // 5) and not self.analysis_errors and not r.findings:
                raise AnalysisError(
                    f"rule {r.rule} evaluated {r.instances} instances, below 60% of the {r.floor} confirmed by hand "
                    f"(a rule that matches too few sites would pass vacuously; the margin allows sites to be merged by a refactoring)"
                )
        known = load_known()
        open_known = [k for k in known if k.get("status") == "open" and k.get("property") == self.prop]
        matched: list[tuple[Finding, dict]] = []
        new: list[Finding] = []
        for r in self.rules:
            for f in r.findings:
                k = next(
                    (
                        k
                        for k in open_known
                        if k.get("rule") == f.rule and k.get("construct") == f.construct and k.get("key") == f.key
                    ),
                    None,
                )
                if k is not None:
                    matched.append((f, k))
                else:
                    new.append(f)
        # a new finding whose key only says "expected construct not found here" is not positive evidence (shapekeys.py)
        from .shapekeys import SHAPE_KEYS

        unrecognised = [f for f in new if (f.rule, f.key.split(":")[0]) in SHAPE_KEYS]
        new = [f for f in new if f not in unrecognised]
        for f in unrecognised:
            self.analysis_errors.append(f"{f.rule} {f.construct} [{f.key}]: the construct this rule expects was not recognised ({f.message[:160]}) — cannot decide")
        for f, k in matched:
            print(f"KNOWN-FINDING: property={self.prop} rule={f.rule} {f.construct} [{f.key}] {k.get('what', f.message)}")
        stale = [k for k in open_known if not any(k is kk for _, kk in matched)]
        for k in stale:
            # an open entry that no longer fires is reported (not an error: the defect may be fixed)
            print(f"NOTE: listed finding no longer reported: {k.get('rule')} {k.get('construct')} [{k.get('key')}]")
        obligations = sum(r.instances for r in self.rules)
        discharged = sum(r.discharged for r in self.rules)
        distinct = len({(r.rule, i) for r in self.rules for i in r.nontrivial})
        samples = []
        for r in self.rules:
            for s in r.samples[:4]:
                samples.append(f"{r.rule}: {s}")
        coverage = {
            "explanation": explanation,
            "evaluations": obligations,
            "distinct_nontrivial": distinct,
            "rule": "one evaluation per rule instance discovered in the current tree (function, call site, table "
            "entry, regex, case); an instance is non-trivial when it matched a real construct of /repo; "
            "distinct by (rule id, instance name)",
            "obligations": obligations,
            "discharged": discharged,
            "known_findings_matched": len(matched),
            "new_violations": len(new),
            "unrecognised_shapes": [f.to_json() for f in unrecognised],
            "analysis_errors": list(self.analysis_errors),
            "samples": samples or ["(none)"],
            "rules": [
                {
                    "rule": r.rule,
                    "description": r.description,
                    "instances": r.instances,
                    "discharged": r.discharged,
                    "floor": r.floor,
                    "findings": [f.to_json() for f in r.findings],
                    "notes": r.notes,
                }
                for r in self.rules
            ],
        }
        if index is not None:
            coverage["files_parsed"] = index.n_files
            coverage["functions_indexed"] = index.n_functions
            coverage["tree_digest"] = index.digest
        coverage.update(self.extra)
        ev = {
            "property_id": self.prop,
            "tier": self.tier,
            "seed": int(os.environ.get("VERIF_SEED", "0") or 0),
            "level": "other",
            "coverage": coverage,
            "assumptions": self.assumptions
            + [
                "Python semantics of attribute assignment and evaluation order",
                "verdicts are computed from the AST of /repo's working tree; nothing from xdsl is imported or run",
                "monkey-patching and client code that bypasses the public API are outside the model",
            ],
            "wall_s": round(time.time() - self.t0, 3),
            "violations": len(new),
        }
        EVIDENCE_DIR.mkdir(exist_ok=True)
        (EVIDENCE_DIR / f"{self.prop}.json").write_text(json.dumps(ev, indent=1, ensure_ascii=False) + "\n")
        print(
            f"{self.prop} [{self.tier}]: {obligations} rule instances, {discharged} discharged, "
            f"{len(matched)} known findings, {len(new)} new violations, {ev['wall_s']} s"
        )
        for e in self.analysis_errors:
            print(f"ANALYSIS-ERROR property={self.prop}: {e}")
        if new:
            vpath = EVIDENCE_DIR / f"{self.prop}.violation.json"
            vpath.write_text(json.dumps([f.to_json() for f in new], indent=1, ensure_ascii=False) + "\n")
            for f in new:
                print(f"  {f.loc}: [{f.rule}] {f.construct} [{f.key}]: {f.message}")
                for p in f.path:
                    print(f"      {p}")
            print(f"VIOLATION property={self.prop} replay={vpath}")
            return 1
        else:
            vpath = EVIDENCE_DIR / f"{self.prop}.violation.json"
            if vpath.exists():
                vpath.unlink()
        return 2 if self.analysis_errors else 0


def load_known() -> list[dict]:
    if not KNOWN_FILE.exists():
        return []
    data = json.loads(KNOWN_FILE.read_text())
    return data.get("findings", data) if isinstance(data, dict) else data
