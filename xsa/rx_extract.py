"""Extraction of regex patterns (string + flags) and string constants from the source tree."""

from __future__ import annotations

import ast
import re

from .srcindex import AnalysisError, ClassInfo, Index, ModuleInfo, dotted

FLAG_NAMES = {"ASCII": re.ASCII, "A": re.ASCII, "IGNORECASE": re.IGNORECASE, "I": re.IGNORECASE, "DOTALL": re.DOTALL,
              "S": re.DOTALL, "MULTILINE": re.MULTILINE, "M": re.MULTILINE, "VERBOSE": re.VERBOSE, "X": re.VERBOSE, "UNICODE": re.UNICODE, "U": re.UNICODE}


def const_str(idx: Index, mi: ModuleInfo, e: ast.AST, cls: ClassInfo | None = None, depth: int = 0) -> str:
    """Evaluate a compile-time string expression (literals, +, names of module/class constants, f-strings
    of such)."""
    if depth > 6:
        raise AnalysisError("string constant too deep")
    if isinstance(e, ast.Constant) and isinstance(e.value, str):
        return e.value
    if isinstance(e, ast.BinOp) and isinstance(e.op, ast.Add):
        return const_str(idx, mi, e.left, cls, depth + 1) + const_str(idx, mi, e.right, cls, depth + 1)
    if isinstance(e, ast.JoinedStr):
        out = ""
        for v in e.values:
            if isinstance(v, ast.Constant):
                out += str(v.value)
            elif isinstance(v, ast.FormattedValue):
                out += const_str(idx, mi, v.value, cls, depth + 1)
        return out
    if isinstance(e, ast.Name):
        if cls is not None and e.id in cls.class_assigns():
            return const_str(idx, mi, cls.class_assigns()[e.id], cls, depth + 1)
        if e.id in mi.assigns:
            return const_str(idx, mi, mi.assigns[e.id], None, depth + 1)
    if isinstance(e, ast.Attribute):
        r = idx.resolve_dotted(mi, dotted(e))
        if isinstance(r, tuple) and r[0] == "assign":
            owner = r[1].classes.get(r[2].rsplit(".", 1)[0]) if "." in r[2] else None
            return const_str(idx, r[1], r[3], owner, depth + 1)
    raise AnalysisError(f"cannot evaluate string constant `{ast.unparse(e)}` in {mi.relpath}")


def flags_of(e: ast.AST | None) -> int:
    if e is None:
        return 0
    if isinstance(e, ast.BinOp) and isinstance(e.op, ast.BitOr):
        return flags_of(e.left) | flags_of(e.right)
    if isinstance(e, ast.Attribute) and isinstance(e.value, ast.Name) and e.value.id == "re" and e.attr in FLAG_NAMES:
        return FLAG_NAMES[e.attr]
    if isinstance(e, ast.Constant) and isinstance(e.value, int):
        return e.value
    raise AnalysisError(f"cannot evaluate regex flags `{ast.unparse(e)}`")


def compile_call(idx: Index, mi: ModuleInfo, e: ast.AST, cls: ClassInfo | None = None) -> tuple[str, int]:
    """(pattern, flags) of an `re.compile(...)` expression."""
    if not (isinstance(e, ast.Call) and dotted(e.func) in ("re.compile", "compile")):
        raise AnalysisError(f"`{ast.unparse(e)[:60]}` is not an re.compile(...) call")
    pat = const_str(idx, mi, e.args[0], cls)
    fl = e.args[1] if len(e.args) > 1 else next((k.value for k in e.keywords if k.arg == "flags"), None)
    return pat, flags_of(fl)


def regex_of_expr(idx: Index, mi: ModuleInfo, e: ast.AST, cls: ClassInfo | None = None) -> tuple[str, int]:
    """(pattern, flags) of an expression that denotes a compiled regex: an `re.compile(...)` call, the name of a module
    constant, or `Class.CONSTANT` (resolved through imports)."""
    if isinstance(e, ast.Call):
        return compile_call(idx, mi, e, cls)
    if isinstance(e, ast.Name) and cls is not None and e.id in cls.class_assigns():
        return compile_call(idx, mi, cls.class_assigns()[e.id], cls)
    if isinstance(e, (ast.Name, ast.Attribute)):
        r = idx.resolve_dotted(mi, dotted(e) or "")
        if isinstance(r, tuple) and r[0] == "assign":
            owner = r[1].classes.get(r[2].rsplit(".", 1)[0]) if "." in r[2] else None
            return compile_call(idx, r[1], r[3], owner)
    raise AnalysisError(f"`{ast.unparse(e)[:60]}` does not resolve to a compiled regex in {mi.relpath}")


def module_regex(idx: Index, relpath: str, name: str) -> tuple[str, int]:
    mi = idx.module(relpath)
    if name not in mi.assigns:
        from .srcindex import AnchorMissing

        raise AnchorMissing(f"module constant {name} not found in {relpath}")
    return compile_call(idx, mi, mi.assigns[name])


def class_regex(idx: Index, relpath: str, cls: str, name: str) -> tuple[str, int]:
    ci = idx.cls(relpath, cls)
    ca = ci.class_assigns()
    if name not in ca:
        from .srcindex import AnchorMissing

        raise AnchorMissing(f"class constant {cls}.{name} not found in {relpath}")
    return compile_call(idx, ci.module, ca[name], ci)


def all_compiles(idx: Index, relpath: str):
    """Every re.compile(...) in a module: yields (qualified site, pattern, flags, lineno)."""
    mi = idx.module(relpath)
    for n in ast.walk(mi.tree):
        if isinstance(n, ast.Call) and dotted(n.func) == "re.compile":
            # find enclosing class for constant resolution
            cls = None
            for ci in mi.classes.values():
                if ci.node.lineno <= n.lineno <= (ci.node.end_lineno or 10**9):
                    cls = ci
            try:
                pat, fl = compile_call(idx, mi, n, cls)
            except AnalysisError:
                yield (f"{mi.relpath}:{n.lineno}", None, 0, n.lineno)
                continue
            yield (f"{mi.relpath}:{n.lineno}", pat, fl, n.lineno)


def escape_table(bc) -> dict[str, bytes]:
    """The literal table by which `StringLiteral.bytes_contents` decodes named escapes, whatever it is called and wherever
    it is written (local of the function, class attribute, module constant): a dict literal from str constants to one-byte
    bytes constants that the function mentions.  Keys are normalised to the two-character form `\\n`."""
    import ast as _ast

    from .srcindex import AnalysisError

    cands: list[_ast.Dict] = []
    for n in _ast.walk(bc.node):
        if isinstance(n, _ast.Dict):
            cands.append(n)
    names = {n.id for n in _ast.walk(bc.node) if isinstance(n, _ast.Name)} | {n.attr for n in _ast.walk(bc.node) if isinstance(n, _ast.Attribute)}
    for nm, v in getattr(bc.module, "assigns", {}).items():
        if nm in names and isinstance(v, _ast.Dict):
            cands.append(v)
    if bc.cls is not None:
        for st in bc.cls.node.body:
            tg = st.targets[0] if isinstance(st, _ast.Assign) and len(st.targets) == 1 else st.target if isinstance(st, _ast.AnnAssign) else None
            if isinstance(tg, _ast.Name) and tg.id in names and isinstance(getattr(st, "value", None), _ast.Dict):
                cands.append(st.value)
    good = []
    for d in cands:
        if d.keys and all(isinstance(k, _ast.Constant) and isinstance(k.value, str) and len(k.value) in (1, 2) for k in d.keys) and all(isinstance(v, _ast.Constant) and isinstance(v.value, bytes) and len(v.value) == 1 for v in d.values):
            good.append(d)
    if len(good) != 1:
        raise AnalysisError(f"{bc.fq}: table of named escapes not found ({len(good)} candidate dict literals)")
    out = {}
    for k, v in zip(good[0].keys, good[0].values):
        key = k.value if len(k.value) == 2 else "\\" + k.value  # type: ignore[union-attr]
        out[key] = v.value  # type: ignore[union-attr]
    return out
