"""Per-property interface texts (used to generate MANIFEST.json)."""

FIX_COMMITS: list[str] = []

NOT_APPLICABLE = [
    {"property_id": "C17", "reason": "quantifies over every registered pass x every valid module; validity of the output IR is a run-time fact of ~130 transformations and no structural clause is a necessary condition that static analysis can decide exactly (registry agreement is checked under C18)"},
    {"property_id": "C27", "reason": "equivalence of two interpreters (PDL direct vs compiled pdl_interp) through a predicate-tree compiler; no clause short of running both is a necessary condition decidable from code shape"},
    {"property_id": "C28", "reason": "depends on run-time e-graph contents (e-class merging, cost assignment, extraction); nothing in the shape of the code bounds it"},
]

_T = "static analysis: "

CHECKS: dict[str, dict] = {
    "C12": {
        "technique": _T + "CFG pairing/ordering + reaching-definition derivation + sibling predicate agreement",
        "text": "Decides, for every input and history at once, the structural clauses that model conformance needs: Worklist keeps _map[x] = position of x in _stack (index read before append, delete paired with tombstone, tombstones never returned, emptiness after discarding tombstones); union-find returns a fixed point of _parent, compresses only to that root, re-parents root(rhs) under root(lhs) for the left-biased union and sums counts on the new root; the generic wrapper forwards arguments in order; ScopedDict's three lookup forms use one presence predicate. It does not decide full conformance with the abstract models for every history (that needs enumeration, a different technique).",
        "note": "Trusted: Python semantics of list/dict operations; the representation (_stack/_map with _MISSING tombstones, _parent/_count) — if it changes the check stops with ANALYSIS-ERROR rather than passing.",
    },
    "C24": {
        "technique": _T + "visited-set typestate on the CFG, iteration-domain derivation, lattice/fixpoint shape rules",
        "text": "Decides the structural clauses every region CFG needs: the DFS marks the start block, tests-and-marks each successor individually (no duplicate enqueue for multi-edges), re-pushes a block before its successors and returns only entries popped as visited; dominance predecessor sets are restricted to reachable blocks; entry={entry}, others=all blocks; the change flag is monotone within a sweep; the meet is {b} | intersection over predecessors; strict dominance excludes identity. It does not compare against a path-based reference on concrete graphs.",
        "note": "Trusted: Python set/list semantics; the algorithm shape (iterative dominator sets, explicit-stack DFS) — a different algorithm stops the check with ANALYSIS-ERROR.",
    },
    "C03": {
        "technique": _T + 'field-coverage and must-pass-through on the CFG, typed-pairing dominance, sibling lookup agreement',
        "text": "Decides necessary structural clauses for every pair of IR fragments: each semantic field named by the property (name, operands, result types, attributes, properties, successors, regions; block argument types, ops; blocks) is compared by a rejecting, discriminating test on every path to an accepting return; two values are paired in the correspondence only after their types were compared; lookups that can reject are total (identity fallback or membership guard), which is what reflexivity at top level needs; blocks and values are registered before references to them are compared; CSE's key hashes a subset of what it compares and never keys terminators. It does not decide completeness of the relation on arbitrary isomorphic pairs.",
        "note": 'Trusted: the list of semantic fields is taken from the property statement; bookkeeping fields (parent links, uses, location) are exempt.',
    },
    "C02": {
        "technique": _T + 'ownership/derivation analysis (writes target only objects created by the clone), mapper provenance, registration-before-remap ordering on the CFG',
        "text": "Decides for every source IR and destination at once: each attribute store and IR-mutator call inside the clone call tree targets an object derived from a constructor/create call of that clone (the only write to the destination is the insertion of the fresh blocks); operands and successors of the copy are obtained through the value/block mappers with identity fallback; blocks, block arguments and results are registered before any operand is remapped and nested clone calls defer operands; attribute/property dictionaries are copied; an index 0 is not treated as absent; apply_to_clone applies the pass to clones only. Whole-copy equivalence is not decided (C03's oracle at run time).",
        "note": 'Trusted: constructor calls Block()/Region()/create()/clone*() return new objects; derivation follows zip/enumerate components and local lists filled only by append.',
    },
    "C01": {
        "technique": _T + 'link-store pairing on the CFG, field-writer ownership sweep over the whole repository, use re-homing pairing, index-class partition, attach-guard must-pass-through, local-heap shape case analysis',
        "text": "Decides for every IR and every edit sequence built from the API: (a) in every list primitive each link store a.next=b is matched on the same paths by b.prev=a and a re-homed Use gets both link fields re-initialised; (b) only the primitives of xdsl/ir/core.py (plus Rewriter.replace_value_with_new_type) write link, parent, use-list and argument-list fields anywhere in the repository; (c) operand/successor replacement removes the old value's Use and adds the same Use to the new value and updates both tuples; (d) argument indices are shifted for exactly the suffix and retyped values keep owner and index; (e) slice rebuilds are right for each index class or reject it; (f) insertion writes links only after _attach_* and erase requires a detached node. Client code that bypasses the API, and sequences whose correctness depends on values rather than on the shape of the primitives, are not decided.",
        "note": 'Trusted: the list representation (_next/_prev/_first/_last fields) and the set of owner classes in core.py; one named exception (TestSpecialisedConstantFoldingPass, a deliberately inlined benchmark).',
    },
    "C11": {
        "technique": _T + 'MRO-aware call resolution + CFG must-pass-through (flag / notification / accumulation), handler-list field coverage, loop-control dataflow',
        "text": "Decides for every pattern and IR: each PatternRewriter method (own or inherited from Builder) that reaches an IR-mutating primitive sets has_done_action on every such path (one accepted conditional idiom: set iff the list of re-routed users is non-empty); each mutation kind calls its listener hook in the order the walker needs; every handler list has a dispatcher, is forwarded and is wired into the walker together with the user's callbacks; the removal handler purges the erased op and all nested ops from the worklist; the worklist loop resets and accumulates the flag around every match and takes ops only from the worklist; every step of rewrite_region that can change the IR controls the re-walk loop; the applier stops after the first pattern that acted. Termination / fixpoint for arbitrary pattern sets and worklist order effects are not decided.",
        "note": 'Trusted: the set of IR-mutating primitives (Rewriter.* static methods and the mutators of core.py); moves (inline_block/inline_region/move_region_contents) set the flag but have no listener hook by design and are recorded, not reported.',
    },
    "C13": {
        "technique": _T + 'required-conjunct extraction of the removability predicate closed over helpers, guarded-action (control dependence) check of every erase site, fixpoint-loop and notification ordering on the CFG',
        "text": "Decides for every program: the removability predicate is exactly the conjunction 'all results unused, not a terminator, not a symbol, effects known, each effect a read or an allocation of a value defined inside the op' (unknown effects mean not removable); every erase site of the dce pattern, region_dce, the greedy applier and CSE is control-dependent on that predicate or on liveness derived from it; liveness marks an op live iff it is not removable-if-unused or a user is live, re-propagates into nested regions on every call and iterates until no change; erased ops are announced before erasure; the entry block is never erased; reachability follows possibly-unregistered terminators. Effect declarations of individual dialect operations (the trusted input of the predicate) are not decided.",
        "note": 'Trusted: MemoryEffect traits declared on operations are right; Python set semantics.',
    },
    "C04": {
        "technique": _T + 'regular-language inclusion / intersection-emptiness / right-quotient on re._parser ASTs, printer-parser section-order table agreement, unordered-iteration and scope-pairing rules',
        "text": "Decides for every name hint and IR at once: the language of accepted name hints is included in the lexer's suffix-id language (with flags as compiled, Unicode-wide classes modelled); the image of extract_valid_name cannot collide with the names the printer generates ('<hint>_<n>', numbers, automatic bb<n> labels); the printer's identifier-or-string decision uses the lexer's own regex, which the lexer lexes as one token; the generic printer emits and the generic parser consumes the same sections in the same order; printing iterates no unordered collection; results of isolated-from-above ops are named in the enclosing scope and scopes are balanced. Round-trip of arbitrary verified modules, aliases and resource sections are not decided.",
        "note": "Trusted: re._parser's AST of the patterns; the abstraction of non-ASCII characters into four atoms (letter, digit, space, other); the printer's naming scheme shape (checked, ANALYSIS-ERROR if it changes).",
    },
    "C07": {
        "technique": _T + 'regular-language ambiguity analysis (ReDoS) on re._parser ASTs; guard / try-handler / declared-union partition classification of every raise, assert and partial-builtin site; sibling guard agreement',
        "text": 'Decides for every input text: (a) no regex of the lexers/parsers has a starred group with an ambiguous inner repeat before a failable continuation (exponential backtracking); (b) the lexer dispatches to number lexing only on ASCII digits; (c) every explicit non-diagnostic raise, assert and partial builtin (int, float, to_bytes, decode, fromhex, zip strict, next, index) in xdsl/parser/*.py and the lexers is guarded by a validity test on the same value (evaluated over the declared union type where known), enclosed in a try converting it to a diagnostic, or is a reviewed internal invariant with its reason; (d) sibling sites that do the same action carry the same guard (name hints, _consume_token kinds, integer range validation, STRING_LIT classification before decoding, affine operators); (e) look-ahead characters are used as strings only under a bounds guard. Implicit KeyError/IndexError/TypeError of arbitrary subscripts and calls, dialect-defined parse methods and non-regex running time are not decided.',
        "note": 'Trusted: the table of partial builtins and the exceptions they raise; the reviewed-invariant table in xsa/rules/c07.py (27 sites, one line of reason each); raise_error/emit_error raise diagnostics only.',
    },
}
