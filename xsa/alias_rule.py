"""Rule <prop>.A1 — a container argument captured by reference.

An object that keeps a container handed in by its caller *as it is* shares that container with the caller from then on:
the caller's later `sort()` / `append()` changes the object's state behind its back, and the object's own in-place
updates write into the caller's data.  Two shapes are positive evidence that the sharing is not intended (Engler's
contradiction rule; no baseline is needed, both have zero sites on the pinned tree):

  (a) *sometimes copied*: the value stored in `self.F` is the bare parameter on one branch and a copy of it on another
      (`values if isinstance(values, list) else list(values)`, `p or []` is not a copy and is not reported);
  (b) *read-only type, mutated*: the parameter is annotated with a read-only abstract type (Iterable, Sequence,
      Collection, Mapping, Set / AbstractSet, Iterator) — the caller may pass a tuple, a generator, a dict view — and the
      class updates `self.F` in place (append / extend / insert / pop / remove / sort / clear / add / update / item store).
"""

from __future__ import annotations

import ast
import re

from .astutil import unparse
from .memo_rule import lint_files
from .report import Finding, Report
from .srcindex import AnalysisError, Index

COPIERS = {"list", "dict", "set", "tuple", "frozenset", "sorted", "deque", "OrderedDict", "copy", "deepcopy"}
READONLY = re.compile(r"^(typing\.|collections\.abc\.|abc\.)?(Iterable|Sequence|Collection|Mapping|Set|AbstractSet|Iterator|Reversible|Container)\b")
MUTATORS = {"append", "extend", "insert", "pop", "remove", "sort", "reverse", "clear", "add", "update", "discard", "setdefault", "popitem", "appendleft", "popleft"}


def _branches(e: ast.AST) -> list[ast.AST]:
    if isinstance(e, ast.IfExp):
        return _branches(e.body) + _branches(e.orelse)
    return [e]


def _is_copy_of(e: ast.AST, p: str) -> bool:
    if isinstance(e, ast.Call):
        fn = unparse(e.func).split(".")[-1]
        if fn in COPIERS and e.args and any(isinstance(x, ast.Name) and x.id == p for x in ast.walk(e.args[0])):
            return True
        if isinstance(e.func, ast.Attribute) and e.func.attr == "copy" and isinstance(e.func.value, ast.Name) and e.func.value.id == p:
            return True
    if isinstance(e, (ast.ListComp, ast.SetComp, ast.DictComp)) and any(isinstance(x, ast.Name) and x.id == p for g in e.generators for x in ast.walk(g.iter)):
        return True
    if isinstance(e, (ast.List, ast.Tuple, ast.Set)) and any(isinstance(x, ast.Starred) and isinstance(x.value, ast.Name) and x.value.id == p for x in e.elts):
        return True
    return False


def sites(cls: ast.ClassDef) -> list[tuple[str, str, str, ast.AST, str]]:
    """(kind, field, parameter, store node, detail)"""
    out = []
    mutated: dict[str, ast.AST] = {}
    for n in ast.walk(cls):
        if isinstance(n, ast.Call) and isinstance(n.func, ast.Attribute) and n.func.attr in MUTATORS and isinstance(n.func.value, ast.Attribute) and isinstance(n.func.value.value, ast.Name) and n.func.value.value.id == "self":
            mutated.setdefault(n.func.value.attr, n)
        tg = n.targets if isinstance(n, ast.Assign) else [n.target] if isinstance(n, ast.AugAssign) else n.targets if isinstance(n, ast.Delete) else []
        for t in tg:
            if isinstance(t, ast.Subscript) and isinstance(t.value, ast.Attribute) and isinstance(t.value.value, ast.Name) and t.value.value.id == "self":
                mutated.setdefault(t.value.attr, n)
    declared = {n.target.id: unparse(n.annotation) for n in cls.body if isinstance(n, ast.AnnAssign) and isinstance(n.target, ast.Name)}
    for m in cls.body:
        if not isinstance(m, (ast.FunctionDef, ast.AsyncFunctionDef)):
            continue
        a = m.args
        ann = {x.arg: (unparse(x.annotation) if x.annotation is not None else "") for x in a.posonlyargs + a.args + a.kwonlyargs}
        rebound = {t.id for n in ast.walk(m) for t in (n.targets if isinstance(n, ast.Assign) else []) if isinstance(t, ast.Name)}
        for n in ast.walk(m):
            if not (isinstance(n, (ast.Assign, ast.AnnAssign)) and n.value is not None):
                continue
            tgs = n.targets if isinstance(n, ast.Assign) else [n.target]
            for t in tgs:
                if not (isinstance(t, ast.Attribute) and isinstance(t.value, ast.Name) and t.value.id == "self"):
                    continue
                brs = _branches(n.value)
                bare = [b for b in brs if isinstance(b, ast.Name) and b.id in ann and b.id != "self" and b.id not in rebound]
                for b in bare:
                    p = b.id
                    if any(_is_copy_of(o, p) for o in brs if o is not b):
                        out.append(("sometimes-copied", t.attr, p, n, unparse(n.value)[:80]))
                    elif READONLY.match(ann[p].strip("'\"")) and t.attr in mutated:
                        out.append(("readonly-mutated", t.attr, p, n, f"{ann[p][:40]}; `{unparse(mutated[t.attr])[:50]}`"))
                    elif READONLY.match(ann[p].strip("'\"")) and re.match(r"(tuple|frozenset)\[", declared.get(t.attr, "")) and len(brs) == 1:
                        out.append(("declared-immutable", t.attr, p, n, f"{ann[p][:40]}; {declared[t.attr][:40]}"))
    return out


IMMUTABLE_RET = re.compile(r"^(bytes|str|tuple\[|frozenset\[|tuple$|frozenset$)")
MUTABLE_CTORS = {"bytearray", "list", "set", "dict", "deque", "defaultdict", "OrderedDict"}


def _strip_cast(e: ast.AST) -> ast.AST:
    while isinstance(e, ast.Call) and unparse(e.func) in ("cast", "typing.cast") and len(e.args) == 2:
        e = e.args[1]
    return e


def function_sites(fn: ast.AST, module_tree: ast.AST) -> list[tuple[str, ast.AST, str]]:
    """(kind, node, detail) for one function: a mutable buffer returned under an immutable return annotation; a parameter
    handed back as it is on one path and copied on another while a caller in the module updates the result in place."""
    out = []
    ret_ann = unparse(fn.returns).strip("'\"") if getattr(fn, "returns", None) is not None else ""
    defs: dict[str, list[ast.AST]] = {}
    for n in ast.walk(fn):
        if isinstance(n, ast.Assign) and len(n.targets) == 1 and isinstance(n.targets[0], ast.Name):
            defs.setdefault(n.targets[0].id, []).append(n.value)
        elif isinstance(n, ast.AnnAssign) and isinstance(n.target, ast.Name) and n.value is not None:
            defs.setdefault(n.target.id, []).append(n.value)
    a = fn.args
    params = {x.arg for x in a.posonlyargs + a.args + a.kwonlyargs}
    rets = [n for n in ast.walk(fn) if isinstance(n, ast.Return) and n.value is not None]
    # nested function returns belong to the nested function
    nested = [g for g in ast.walk(fn) if isinstance(g, (ast.FunctionDef, ast.AsyncFunctionDef, ast.Lambda)) and g is not fn]
    rets = [r_ for r_ in rets if not any(any(x is r_ for x in ast.walk(g)) for g in nested)]
    if IMMUTABLE_RET.match(ret_ann):
        for r_ in rets:
            v = _strip_cast(r_.value)
            if isinstance(v, ast.Name) and v.id not in params and defs.get(v.id) and all(isinstance(d, ast.Call) and unparse(d.func).split("[")[0] in MUTABLE_CTORS for d in defs[v.id]):
                out.append(("mutable-returned-as-immutable", r_, f"{v.id} = {unparse(defs[v.id][0])[:40]}; -> {ret_ann[:30]}"))
    # a mutable default argument that the function itself writes: state shared by every call that omits the argument
    pos_ = a.posonlyargs + a.args
    dflt = dict(zip([x.arg for x in pos_[len(pos_) - len(a.defaults):]], a.defaults))
    dflt.update({x.arg: d for x, d in zip(a.kwonlyargs, a.kw_defaults) if d is not None})
    for pn, d in dflt.items():
        if not (isinstance(d, (ast.Dict, ast.List, ast.Set)) or (isinstance(d, ast.Call) and unparse(d.func) in ("dict", "list", "set", "defaultdict", "OrderedDict", "deque"))):
            continue
        if pn in defs:
            continue  # re-bound in the function (`m = dict(m)`)
        for n in ast.walk(fn):
            w = None
            if isinstance(n, (ast.Assign, ast.AugAssign)):
                tgs = n.targets if isinstance(n, ast.Assign) else [n.target]
                if any(isinstance(t_, ast.Subscript) and unparse(t_.value) == pn for t_ in tgs) or (isinstance(n, ast.AugAssign) and unparse(n.target) == pn):
                    w = n
            if isinstance(n, ast.Call) and isinstance(n.func, ast.Attribute) and unparse(n.func.value) == pn and n.func.attr in MUTATORS:
                w = n
            if w is not None:
                out.append(("mutable-default-written", w, f"{pn}={unparse(d)}"))
                break
    # a shallow copy shares the containers held in the fields of the original
    shallow = {n.targets[0].id: n for n in ast.walk(fn) if isinstance(n, ast.Assign) and len(n.targets) == 1 and isinstance(n.targets[0], ast.Name) and isinstance(n.value, ast.Call) and unparse(n.value.func) in ("copy", "copy.copy") and len(n.value.args) == 1}
    for nm, bind in shallow.items():
        for n in ast.walk(fn):
            hit = None
            if isinstance(n, ast.Call) and isinstance(n.func, ast.Attribute) and n.func.attr in MUTATORS and isinstance(n.func.value, ast.Attribute) and isinstance(n.func.value.value, ast.Name) and n.func.value.value.id == nm:
                hit = n
            elif isinstance(n, ast.AugAssign) and isinstance(n.target, ast.Attribute) and isinstance(n.target.value, ast.Name) and n.target.value.id == nm and isinstance(n.op, (ast.Add, ast.BitOr)) and isinstance(n.value, (ast.List, ast.Set, ast.Dict, ast.ListComp)):
                hit = n
            elif isinstance(n, ast.Assign) and any(isinstance(t, ast.Subscript) and isinstance(t.value, ast.Attribute) and isinstance(t.value.value, ast.Name) and t.value.value.id == nm for t in n.targets):
                hit = n
            if hit is not None:
                out.append(("shallow-copy-updated-in-place", hit, f"{nm} = {unparse(bind.value)[:40]}"))
                break
    bare = [(r_, _strip_cast(r_.value).id) for r_ in rets if isinstance(_strip_cast(r_.value), ast.Name) and _strip_cast(r_.value).id in params and _strip_cast(r_.value).id not in defs and _strip_cast(r_.value).id not in ("self", "cls")]
    for r_, p in bare:
        copies = [o for o in rets if o is not r_ and (_is_copy_of(_strip_cast(o.value), p) or (isinstance(_strip_cast(o.value), ast.Name) and any(_is_copy_of(d, p) for d in defs.get(_strip_cast(o.value).id, []))))]
        if not copies:
            continue
        # a caller in the module that updates the result in place
        fname = fn.name
        for g in ast.walk(module_tree):
            if not isinstance(g, (ast.FunctionDef, ast.AsyncFunctionDef)):
                continue
            holders = {unparse(n.targets[0]) for n in ast.walk(g) if isinstance(n, ast.Assign) and len(n.targets) == 1 and isinstance(n.value, ast.Call) and unparse(n.value.func).split(".")[-1] == fname}
            if not holders:
                continue
            # one level of local aliases: `container = a if c else b`
            for n in ast.walk(g):
                if isinstance(n, ast.Assign) and len(n.targets) == 1 and isinstance(n.targets[0], ast.Name) and any(isinstance(b, ast.Name) and b.id in holders for b in _branches(n.value)):
                    holders = holders | {n.targets[0].id}
            for n in ast.walk(g):
                hit = None
                if isinstance(n, ast.Assign) and any(isinstance(t, ast.Subscript) and unparse(t.value) in holders for t in n.targets):
                    hit = n
                if isinstance(n, ast.Call) and isinstance(n.func, ast.Attribute) and n.func.attr in MUTATORS and unparse(n.func.value) in holders:
                    hit = n
                if hit is not None:
                    out.append(("argument-returned-sometimes-copied", r_, f"{p}; `{unparse(hit)[:60]}` in {g.name}"))
                    break
            else:
                continue
            break
    return out


def getter_sites(module_tree: ast.AST) -> list[tuple[str, str, ast.AST, ast.AST]]:
    """(class.method, field, return node, mutation node): a method hands out one of the object's own mutable containers
    (`return self._f`, return type set / list / dict) and some code of the module updates the result of a call of that method
    in place (`b = c.m(); b &= other`): the update lands in the object the getter belongs to."""
    out = []
    getters: dict[str, tuple[str, str, ast.AST]] = {}
    for c in ast.walk(module_tree):
        if not isinstance(c, ast.ClassDef):
            continue
        for m in c.body:
            if not isinstance(m, ast.FunctionDef) or m.name.startswith("__") or any(unparse(d) in ("property", "cached_property", "functools.cached_property") for d in m.decorator_list):
                continue
            ann = unparse(m.returns) if m.returns is not None else ""
            if not re.match(r"(set|list|dict|defaultdict|deque)\[", ann):
                continue
            for r_ in ast.walk(m):
                if isinstance(r_, ast.Return) and isinstance(r_.value, ast.Attribute) and isinstance(r_.value.value, ast.Name) and r_.value.value.id == "self":
                    getters[m.name] = (f"{c.name}.{m.name}", r_.value.attr, r_)
    if not getters:
        return out
    for g in ast.walk(module_tree):
        if not isinstance(g, (ast.FunctionDef, ast.AsyncFunctionDef)):
            continue
        holders: dict[str, str] = {}
        for n in ast.walk(g):
            if isinstance(n, ast.Assign) and len(n.targets) == 1 and isinstance(n.targets[0], ast.Name) and isinstance(n.value, ast.Call) and isinstance(n.value.func, ast.Attribute) and n.value.func.attr in getters:
                holders[n.targets[0].id] = n.value.func.attr
        # one level of aliases: `acc = b`
        for n in ast.walk(g):
            if isinstance(n, ast.Assign) and len(n.targets) == 1 and isinstance(n.targets[0], ast.Name) and isinstance(n.value, ast.Name) and n.value.id in holders:
                holders.setdefault(n.targets[0].id, holders[n.value.id])
        for n in ast.walk(g):
            nm = None
            if isinstance(n, ast.AugAssign) and isinstance(n.target, ast.Name) and n.target.id in holders and isinstance(n.op, (ast.BitAnd, ast.BitOr, ast.Sub, ast.BitXor, ast.Add)):
                nm = n.target.id
            elif isinstance(n, ast.Call) and isinstance(n.func, ast.Attribute) and n.func.attr in MUTATORS and isinstance(n.func.value, ast.Name) and n.func.value.id in holders:
                nm = n.func.value.id
            elif isinstance(n, ast.Assign) and any(isinstance(t, ast.Subscript) and isinstance(t.value, ast.Name) and t.value.id in holders for t in n.targets):
                nm = next(t.value.id for t in n.targets if isinstance(t, ast.Subscript) and isinstance(t.value, ast.Name) and t.value.id in holders)
            if nm is not None:
                q, fld, rnode = getters[holders[nm]]
                out.append((q, fld, rnode, n))
                break
    return out


def check(idx: Index, rep: Report, prop: str) -> None:
    r = rep.rule(f"{prop}.A1", "no object of the anchored code keeps a container argument by reference where it copies it on another branch, or where the parameter is declared read-only (Iterable / Sequence / Mapping ...) and the object updates the field in place", floor=None)
    pos = ast.parse("class D:\n    def __init__(self, values: Iterable[int] = ()):\n        self._v = values if isinstance(values, list) else list(values)\n    def add(self, x):\n        self._v.append(x)\n").body[0]
    neg = ast.parse("class D:\n    def __init__(self, values: Iterable[int] = ()):\n        self._v = list(values)\n        self._w = values or []\n    def add(self, x):\n        self._v.append(x)\n").body[0]
    if [s[0] for s in sites(pos)] != ["sometimes-copied"] or sites(neg):
        raise AnalysisError("captured-argument detector fails its positive / negative example")
    r.ok("self-check", "bare parameter on one branch, copy on the other: recognised; unconditional copy: not reported")
    n_cls = 0
    for rel in lint_files(prop, idx):
        try:
            mi = idx.module(rel)
        except AnalysisError:
            continue
        for c in ast.walk(mi.tree):
            if not isinstance(c, ast.ClassDef):
                continue
            n_cls += 1
            for kind, fld, p, node, detail in sites(c):
                inst = f"{rel}:{c.name}.{fld}"
                if kind == "sometimes-copied":
                    msg = f"`self.{fld} = {detail}` keeps the caller's `{p}` itself on one branch and a copy on the other: when the argument already has the container type the object shares it with the caller, whose later sort / append / clear changes the object's state (and whose data the object's own updates overwrite)"
                elif kind == "declared-immutable":
                    msg = f"`self.{fld} = {p}` stores the argument as it is although the field is declared `{detail.split(';')[1].strip()}` and `{p}` is only known to be a `{detail.split(';')[0]}`: a list argument is kept by reference, so the caller's later changes to it change the object's state without any of the bookkeeping that goes with an assignment of the field"
                else:
                    msg = f"`self.{fld} = {p}` keeps the argument by reference although `{p}` is declared read-only ({detail.split(';')[0]}) and the class updates the field in place ({detail.split(';')[1].strip()}): a caller's list is written to behind its back, a tuple / generator argument fails later"
                r.fail(inst, Finding(f"{prop}.A1", f"{mi.name}.{c.name}", f"captured-argument-{kind}:{fld}", msg, f"{rel}:{node.lineno}"))
        for q, fld, rnode, mut in getter_sites(mi.tree):
            r.fail(f"{rel}:{q}:getter", Finding(f"{prop}.A1", f"{mi.name}.{q}", f"internal-container-handed-out:{fld}", f"`{unparse(rnode)}` hands out the object's own `{fld}` and `{unparse(mut)[:60]}` (line {mut.lineno}) updates the result of that method in place: the update changes the object the container belongs to, so a later query of the same object answers from the modified container", f"{rel}:{rnode.lineno}"))
        for f in mi.functions.values():
            for kind, node, detail in function_sites(f.raw_node, mi.tree):
                inst = f"{rel}:{f.qualname}:{kind}"
                if kind == "mutable-default-written":
                    msg = f"`{unparse(node)[:60]}` writes the parameter `{detail}`, whose default is created once when the function is defined: what one call records is still there for the next call that omits the argument"
                elif kind == "shallow-copy-updated-in-place":
                    msg = f"`{unparse(node)[:70]}` updates in place a container that belongs to a field of `{detail}`: a shallow copy shares the containers of the original, so the update is also made to the object that was copied (and to every other shallow copy of it)"
                elif kind == "mutable-returned-as-immutable":
                    msg = f"`{unparse(node)}` hands out the mutable buffer `{detail.split(';')[0]}` although the function is declared `{detail.split(';')[1].strip()}`: the result compares equal to the immutable value but cannot be hashed and can be changed in place by whoever holds it"
                else:
                    msg = f"`{unparse(node)}` returns the caller's `{detail.split(';')[0]}` itself while another path returns a fresh copy, and a caller updates the result in place ({detail.split(';')[1].strip()}): on the no-copy path that update is written into the argument, i.e. into an object the caller's caller still owns and may reuse"
                r.fail(inst, Finding(f"{prop}.A1", f.fq, f"{kind}", msg, f"{rel}:{node.lineno}"))
    rep.extra.setdefault("alias_classes", n_cls)
