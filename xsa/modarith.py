"""Abstract interpretation of small integer-normalisation functions.

Domain.  The function under analysis has an integer parameter X (arbitrary, unbounded) and a width
parameter w (>= 1); M = 2**w.  An abstract value is either

* a constant that is linear in M:  a*M + b   (a, b rational; e.g. M, M/2, M - 1, -M/2, 0), or
* a value derived from X:  (c, lo, hi)  meaning  value ≡ X + c (mod M)  with c linear in M (or unknown), and
  lo <= value <= hi with bounds linear in M or infinite.

Transfer functions exist for + - with constants, % M, & (M-1), & H (sign-bit test), ^ H, >> 1 and // 2 on
constants, 1 << (w + k), 2 ** (w + k), max/min on width expressions, calls to pure helper functions of the
same module (inlined), `if` with comparisons against constants / sign-bit tests (range refinement on both
branches), local assignments and returns.  Anything else raises AnalysisError: the analysis never guesses.

Result: for every return path the pair (congruence offset, interval).  A function is a *total modular
normaliser onto [T_lo, T_hi]* iff on every path the offset is ≡ 0 (mod M) and the interval lies inside the
target.  This is decided for every integer X and every width at once; nothing is executed."""

from __future__ import annotations

import ast
from dataclasses import dataclass
from fractions import Fraction

from .srcindex import AnalysisError

INF = "inf"
NINF = "-inf"


@dataclass(frozen=True)
class Lin:
    """a*M + b"""

    a: Fraction
    b: Fraction

    def __add__(self, o: "Lin") -> "Lin":
        return Lin(self.a + o.a, self.b + o.b)

    def __sub__(self, o: "Lin") -> "Lin":
        return Lin(self.a - o.a, self.b - o.b)

    def __neg__(self) -> "Lin":
        return Lin(-self.a, -self.b)

    def scale(self, k: Fraction) -> "Lin":
        return Lin(self.a * k, self.b * k)

    def at(self, m: int) -> Fraction:
        return self.a * m + self.b

    def le(self, o: "Lin") -> bool:
        """self <= o for every M = 2**w, w >= 1 (both linear in M: compare at M = 2 and the slopes)."""
        return self.at(2) <= o.at(2) and self.a <= o.a

    def is_multiple_of_m(self) -> bool:
        return self.b == 0 and self.a.denominator == 1

    def __str__(self) -> str:
        parts = []
        if self.a:
            parts.append("M" if self.a == 1 else f"{self.a}*M")
        if self.b or not parts:
            parts.append(str(self.b))
        return " + ".join(parts).replace("+ -", "- ")


def C(a=0, b=0) -> Lin:
    return Lin(Fraction(a), Fraction(b))


M_, H_, ZERO, ONE = C(1, 0), C(Fraction(1, 2), 0), C(0, 0), C(0, 1)


@dataclass(frozen=True)
class Width:
    """the width expression w + k"""

    k: int


@dataclass(frozen=True)
class Var:
    cong: Lin | None  # value ≡ X + cong (mod M); None = unknown
    lo: Lin | str
    hi: Lin | str
    bit: bool = False  # value is X & H: one of {0, H}
    src: "Var | None" = None  # for bit tests: the value whose sign bit was taken

    def show(self) -> str:
        return f"≡ X{'' if self.cong is None or self.cong == ZERO else ' + ' + str(self.cong)}{' (congruence unknown)' if self.cong is None else ''} (mod M), in [{self.lo}, {self.hi}]"


def _le(a, b) -> bool:
    if a == NINF or b == INF:
        return True
    if a == INF or b == NINF:
        return False
    return a.le(b)


def _shift(bound, c: Lin):
    return bound if isinstance(bound, str) else bound + c


class Interp:
    def __init__(self, module_functions: dict[str, ast.FunctionDef], xname: str, wname: str):
        self.funcs = module_functions
        self.x, self.w = xname, wname

    # ---- expressions
    def ev(self, e: ast.AST, env: dict):
        if isinstance(e, ast.Constant) and isinstance(e.value, int) and not isinstance(e.value, bool):
            return C(0, e.value)
        if isinstance(e, ast.Name):
            if e.id in env:
                return env[e.id]
            raise AnalysisError(f"modarith: unbound name `{e.id}`")
        if isinstance(e, ast.UnaryOp) and isinstance(e.op, ast.USub):
            v = self.ev(e.operand, env)
            if isinstance(v, Lin):
                return -v
            raise AnalysisError("modarith: negation of a non-constant")
        if isinstance(e, ast.Call):
            fn = e.func.id if isinstance(e.func, ast.Name) else None
            args = [self.ev(a, env) for a in e.args]
            if fn in ("max", "min") and len(args) == 2 and all(isinstance(a, (Width, Lin)) for a in args):
                # on width expressions with w >= 1: max(w + k, c) for k >= -1, c <= 0 is w + k
                wa = [a for a in args if isinstance(a, Width)]
                ca = [a for a in args if isinstance(a, Lin)]
                if len(wa) == 1 and len(ca) == 1 and ca[0].a == 0:
                    if fn == "max" and wa[0].k + 1 >= ca[0].b:
                        return wa[0]
                raise AnalysisError(f"modarith: `{ast.unparse(e)}` not supported")
            if fn in self.funcs and not e.keywords:
                f = self.funcs[fn]
                params = [a.arg for a in f.args.args]
                if len(params) != len(args):
                    raise AnalysisError(f"modarith: arity of {fn}")
                rets = self.run(f.body, dict(zip(params, args)))
                if len(rets) != 1:
                    raise AnalysisError(f"modarith: helper {fn} has several return paths")
                return rets[0][0]
            raise AnalysisError(f"modarith: call `{ast.unparse(e)}` not supported")
        if isinstance(e, ast.BinOp):
            l, r = self.ev(e.left, env), self.ev(e.right, env)
            op = type(e.op)
            # width arithmetic
            if isinstance(l, Width) and isinstance(r, Lin) and r.a == 0 and r.b.denominator == 1 and op in (ast.Add, ast.Sub):
                return Width(l.k + int(r.b) * (1 if op is ast.Add else -1))
            # powers of two
            if op is ast.LShift and l == ONE and isinstance(r, Width):
                return C(Fraction(2) ** r.k, 0)
            if op is ast.Pow and l == C(0, 2) and isinstance(r, Width):
                return C(Fraction(2) ** r.k, 0)
            if isinstance(l, Lin) and isinstance(r, Lin):
                if op is ast.Add:
                    return l + r
                if op is ast.Sub:
                    return l - r
                if op is ast.RShift and r.a == 0 and r.b.denominator == 1 and l.b == 0:
                    return l.scale(Fraction(1, 2 ** int(r.b)))  # exact for M = 2**w with w >= shift (w >= 1, shift 1)
                if op is ast.FloorDiv and r.a == 0 and r.b in (2,) and l.b == 0:
                    return l.scale(Fraction(1, 2))
                if op is ast.Mult and (l.a == 0 or r.a == 0):
                    k, v = (l.b, r) if l.a == 0 else (r.b, l)
                    return v.scale(k)
                raise AnalysisError(f"modarith: constant expression `{ast.unparse(e)}` not supported")
            if isinstance(l, Lin) and isinstance(r, Var) and op is ast.Add:
                l, r = r, l
            if isinstance(l, Var) and isinstance(r, Lin):
                if op in (ast.Add, ast.Sub):
                    c = r if op is ast.Add else -r
                    return Var(None if l.cong is None else l.cong + c, _shift(l.lo, c), _shift(l.hi, c))
                if op is ast.Mod:
                    if r == M_:
                        return Var(l.cong, ZERO, M_ - ONE)
                    raise AnalysisError(f"modarith: `% {r}` is not a reduction modulo M")
                if op is ast.BitAnd:
                    if r == M_ - ONE:
                        return Var(l.cong, ZERO, M_ - ONE)
                    if r == H_:
                        return Var(None, ZERO, H_, bit=True, src=l)
                    if r == H_ - ONE:
                        return Var(None, ZERO, H_ - ONE, src=l)
                    raise AnalysisError(f"modarith: mask `{r}` not supported")
                if op is ast.BitXor and r == H_ and _le(ZERO, l.lo) and _le(l.hi, M_ - ONE):
                    return Var(None if l.cong is None else l.cong + H_, ZERO, M_ - ONE)
            if isinstance(l, Var) and isinstance(r, Var) and op is ast.Sub:
                # (v & (H-1)) - (v & H): low bits minus the sign bit of the same value
                if r.bit and l.src is not None and r.src is not None and l.src == r.src and l.hi == H_ - ONE and l.lo == ZERO:
                    # sign bit clear: v mod M = low, result = low in [0, H-1]; set: v mod M = low + H, result = low - H = v mod M - M
                    return Var(r.src.cong, -H_, H_ - ONE)
            raise AnalysisError(f"modarith: expression `{ast.unparse(e)}` not supported")
        raise AnalysisError(f"modarith: expression `{ast.unparse(e)}` not supported")

    # ---- branch refinement: returns (env_true, env_false) or raises
    def refine(self, test: ast.AST, env: dict):
        if isinstance(test, ast.UnaryOp) and isinstance(test.op, ast.Not):
            t, f = self.refine(test.operand, env)
            return f, t
        if isinstance(test, ast.Compare) and len(test.ops) == 1 and isinstance(test.left, ast.Name) and test.left.id in env and isinstance(env[test.left.id], Var):
            v = env[test.left.id]
            c = self.ev(test.comparators[0], env)
            if not isinstance(c, Lin):
                raise AnalysisError(f"modarith: comparison `{ast.unparse(test)}` not against a constant")
            op = type(test.ops[0])
            if op in (ast.GtE, ast.Gt, ast.Lt, ast.LtE):
                # normalise to  v >= k  (true branch) / v <= k - 1 (false branch)
                if op is ast.Gt:
                    k, ge = c + ONE, True
                elif op is ast.GtE:
                    k, ge = c, True
                elif op is ast.Lt:
                    k, ge = c, False
                else:
                    k, ge = c + ONE, False
                hi_part = Var(v.cong, k if _le(v.lo, k) else v.lo, v.hi)
                lo_part = Var(v.cong, v.lo, (k - ONE) if _le(k - ONE, v.hi) else v.hi)
                et, ef = dict(env), dict(env)
                et[test.left.id], ef[test.left.id] = (hi_part, lo_part) if ge else (lo_part, hi_part)
                return et, ef
        # truthiness of `v & H` (sign bit of a value already reduced to [0, M-1])
        if isinstance(test, ast.BinOp) and isinstance(test.op, ast.BitAnd) and isinstance(test.left, ast.Name) and test.left.id in env and isinstance(env[test.left.id], Var):
            v = env[test.left.id]
            c = self.ev(test.right, env)
            if c == H_ and _le(ZERO, v.lo) and _le(v.hi, M_ - ONE):
                et, ef = dict(env), dict(env)
                et[test.left.id] = Var(v.cong, H_, v.hi)
                ef[test.left.id] = Var(v.cong, v.lo, H_ - ONE)
                return et, ef
        raise AnalysisError(f"modarith: branch condition `{ast.unparse(test)}` not supported")

    # ---- statements: list of (returned abstract value, line) for every path
    def run(self, body: list[ast.stmt], env: dict) -> list[tuple[object, int]]:
        out: list[tuple[object, int]] = []
        env = dict(env)
        for i, st in enumerate(body):
            if isinstance(st, ast.Expr) and isinstance(st.value, ast.Constant):
                continue
            if isinstance(st, ast.Assign) and len(st.targets) == 1 and isinstance(st.targets[0], ast.Name):
                env[st.targets[0].id] = self.ev(st.value, env)
                continue
            if isinstance(st, ast.AnnAssign) and isinstance(st.target, ast.Name) and st.value is not None:
                env[st.target.id] = self.ev(st.value, env)
                continue
            if isinstance(st, ast.Return) and st.value is not None:
                out.append((self.ev(st.value, env), st.lineno))
                return out
            if isinstance(st, ast.If):
                et, ef = self.refine(st.test, env)
                rest = body[i + 1 :]
                out += self.run(st.body + rest, et) if not _always_returns(st.body) else self.run(st.body, et)
                out += self.run(st.orelse + rest, ef) if not _always_returns(st.orelse) else self.run(st.orelse, ef)
                return out
            raise AnalysisError(f"modarith: statement `{ast.unparse(st).splitlines()[0]}` not supported")
        raise AnalysisError("modarith: a path falls off the end of the function")


def _always_returns(body: list[ast.stmt]) -> bool:
    return bool(body) and isinstance(body[-1], ast.Return)


def analyse(fn: ast.FunctionDef, module_functions: dict[str, ast.FunctionDef]) -> list[tuple[Var | Lin, int]]:
    """Abstract return values of fn(X, w) for every path."""
    if len(fn.args.args) != 2:
        raise AnalysisError(f"modarith: {fn.name} must take (value, width)")
    x, w = fn.args.args[0].arg, fn.args.args[1].arg
    it = Interp(module_functions, x, w)
    return it.run(fn.body, {x: Var(ZERO, NINF, INF), w: Width(0)})  # type: ignore[return-value]


def within(v, lo: Lin, hi: Lin) -> bool:
    return isinstance(v, Var) and _le(lo, v.lo) and _le(v.hi, hi)


def const_of(fn: ast.FunctionDef, module_functions: dict[str, ast.FunctionDef]) -> Lin:
    """Value of a helper f(w) as a constant linear in M (for the bound helpers)."""
    w = fn.args.args[0].arg
    it = Interp(module_functions, "<none>", w)
    rets = it.run(fn.body, {w: Width(0)})
    if len(rets) != 1 or not isinstance(rets[0][0], Lin):
        raise AnalysisError(f"modarith: {fn.name} is not a constant of the width")
    return rets[0][0]
