"""How a set (or dict-key collection) handed to a call is built: its base collections and the elements added to it.

`A.union(x for x, d in D.items() if c1 and c2)`, `A | {x for ...}` and

    s = set(A)
    for x, d in D.items():
        if not c1: continue
        if c2: s.add(x)

all describe bases {A} and one conditional addition (elem x, iterating D.items(), under {c1:T, c2:T}).  Rules compare
this description instead of the expression text."""

from __future__ import annotations

import ast
from dataclasses import dataclass, field

from .astutil import guard_facts, norm_facts, parent_map, unparse, walk_local
from .cfg import CFG
from .dataflow import reaching_defs, resolved_text


@dataclass
class Add:
    elem: str
    iters: tuple[tuple[str, str], ...]  # (target text, iterable text) of the enclosing loops / generators
    facts: frozenset  # normalised (text, polarity)


@dataclass
class SetDesc:
    bases: set[str] = field(default_factory=set)
    adds: list[Add] = field(default_factory=list)
    unknown: list[str] = field(default_factory=list)

    def merge(self, o: "SetDesc") -> None:
        self.bases |= o.bases
        self.adds += o.adds
        self.unknown += o.unknown


COPY = {"set", "frozenset", "list", "tuple", "sorted", "dict", "OrderedSet"}


def describe(fn: ast.AST, cfg: CFG, e: ast.AST, at: int, depth: int = 5) -> SetDesc:
    d = SetDesc()
    if depth <= 0:
        d.unknown.append(unparse(e))
        return d
    if isinstance(e, ast.Name):
        defs = reaching_defs(cfg, e.id, at)
        if len(defs) == 1 and defs[0][0] != cfg.entry and defs[0][1] is not None:
            nid, val = defs[0]
            d.merge(describe(fn, cfg, val, nid, depth - 1))
            _mutations(fn, cfg, e.id, nid, at, d, depth)
            return d
        if len(defs) > 1 and all(nid != cfg.entry and v is not None for nid, v in defs):
            # alternative definitions (if / else): the union of what each branch builds, each under its own guard
            for nid, val in defs:
                sub = describe(fn, cfg, val, nid, depth - 1)
                st = cfg.nodes[nid].ast
                gf = frozenset(norm_facts(guard_facts(fn, st))) if st is not None else frozenset()
                sub.adds = [Add(a.elem, a.iters, a.facts | gf) for a in sub.adds]
                d.merge(sub)
                _mutations(fn, cfg, e.id, nid, at, d, depth)
            return d
        d.bases.add(e.id)
        return d
    if isinstance(e, ast.Attribute):
        d.bases.add(unparse(e))
        return d
    if isinstance(e, ast.Call):
        f = unparse(e.func.value if isinstance(e.func, ast.Subscript) else e.func)  # OrderedSet[T](...) -> OrderedSet
        if f in COPY and len(e.args) == 1 and isinstance(e.args[0], (ast.Tuple, ast.List, ast.Set)) and not e.args[0].elts:
            return d
        if f in COPY and len(e.args) == 1:
            return describe(fn, cfg, e.args[0], at, depth)
        if f in COPY and not e.args:
            return d
        if isinstance(e.func, ast.Attribute) and e.func.attr in ("union", "copy") :
            d.merge(describe(fn, cfg, e.func.value, at, depth))
            for a in e.args:
                d.merge(describe(fn, cfg, a, at, depth))
            return d
        d.unknown.append(unparse(e))
        return d
    if isinstance(e, ast.BinOp) and isinstance(e.op, ast.BitOr):
        d.merge(describe(fn, cfg, e.left, at, depth))
        d.merge(describe(fn, cfg, e.right, at, depth))
        return d
    if isinstance(e, (ast.GeneratorExp, ast.SetComp, ast.ListComp)):
        iters = tuple((unparse(g.target), unparse(g.iter)) for g in e.generators)
        facts = norm_facts([(c, True) for g in e.generators for c in g.ifs])
        d.adds.append(Add(unparse(e.elt), iters, frozenset(facts)))
        return d
    if isinstance(e, (ast.Set, ast.List, ast.Tuple)):
        for x in e.elts:
            if isinstance(x, ast.Starred):
                d.merge(describe(fn, cfg, x.value, at, depth))
            else:
                d.adds.append(Add(unparse(x), (), frozenset()))
        return d
    d.unknown.append(unparse(e))
    return d


def _mutations(fn: ast.AST, cfg: CFG, name: str, def_node: int, use_node: int, d: SetDesc, depth: int) -> None:
    """`name.add(x)` / `name.update(y)` / `name |= y` / `name.discard(x)` between the definition and the use."""
    pm = parent_map(fn)
    after = cfg.reachable(def_node)
    for st in walk_local(fn):
        call = st.value if isinstance(st, ast.Expr) and isinstance(st.value, ast.Call) else None
        tgt = None
        if call is not None and isinstance(call.func, ast.Attribute) and unparse(call.func.value) == name:
            tgt = call.func.attr
        elif isinstance(st, ast.AugAssign) and unparse(st.target) == name:
            tgt = "|=" if isinstance(st.op, ast.BitOr) else "aug"
        if tgt is None:
            continue
        sn = cfg.node_of(st)
        if sn not in after or use_node not in cfg.reachable(sn):
            continue
        # loops enclosing the statement (inside the function)
        iters = []
        n: ast.AST = st
        while id(n) in pm:
            n = pm[id(n)]
            if isinstance(n, ast.For):
                iters.append((unparse(n.target), unparse(n.iter)))
        facts = frozenset(norm_facts(guard_facts(fn, st)))
        if tgt in ("add", "append") and call is not None and len(call.args) == 1:
            d.adds.append(Add(unparse(call.args[0]), tuple(reversed(iters)), facts))
        elif tgt in ("update", "|=", "extend") and not iters and not facts:
            v = call.args[0] if call is not None else st.value  # type: ignore[union-attr]
            d.merge(describe(fn, cfg, v, sn, depth - 1))
        elif tgt in ("update", "|=", "extend") and (call is None or len(call.args) == 1):
            # bulk addition inside loops / under guards: every element of the argument, once per iteration
            v = call.args[0] if call is not None else st.value  # type: ignore[union-attr]
            sub = describe(fn, cfg, v, sn, depth - 1)
            outer = tuple(reversed(iters))
            for a in sub.adds:
                d.adds.append(Add(a.elem, outer + a.iters, a.facts | facts))
            for b in sorted(sub.bases):
                d.adds.append(Add("_e", outer + (("_e", b),), facts))
            d.unknown += sub.unknown
        else:
            d.unknown.append(unparse(st)[:80])


def element_shape(a: Add) -> str:
    """The element expression of an addition with its (single) iteration variable renamed to `_x` (tuple targets:
    `_x0`, `_x1`, ...), so that `M.get(v, v) for v in S` and `M.get(w, w) for w in S` compare equal."""
    if not a.iters:
        return a.elem
    tg = a.iters[-1][0].strip("()")
    names = [t.strip() for t in tg.split(",") if t.strip()]
    ren = {n: (f"_x{i}" if len(names) > 1 else "_x") for i, n in enumerate(names)}
    try:
        e = ast.parse(a.elem, mode="eval").body
    except SyntaxError:
        return a.elem

    class R(ast.NodeTransformer):
        def visit_Name(self, node: ast.Name):
            return ast.copy_location(ast.Name(id=ren.get(node.id, node.id), ctx=node.ctx), node)

    return unparse(R().visit(e))
