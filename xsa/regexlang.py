"""Regular-language analysis over `re._parser` ASTs (no pattern is ever matched against input).

Alphabet: every ASCII code point is its own atom, plus four atoms for non-ASCII characters
(letter, digit, space, other), so that `\\w`, `\\d`, `\\s`, negated classes and the Unicode-wide str
predicates (isalpha/isnumeric/...) are modelled with and without re.ASCII.

Provided: NFA construction, DFA-level inclusion / intersection-emptiness with shortest witness,
right quotient, and an exponential-ambiguity (ReDoS) test for starred bodies followed by a
failable continuation.
"""

from __future__ import annotations

import collections
import re
import re._constants as sc  # type: ignore[import]
import re._parser as sp  # type: ignore[import]
import string

NA_WORD, NA_DIGIT, NA_SPACE, NA_OTHER = 200, 201, 202, 203
NON_ASCII = frozenset({NA_WORD, NA_DIGIT, NA_SPACE, NA_OTHER})
ATOMS: tuple[int, ...] = tuple(range(128)) + (NA_WORD, NA_DIGIT, NA_SPACE, NA_OTHER)
ALL = frozenset(ATOMS)
SHOW = {NA_WORD: "é", NA_DIGIT: "²", NA_SPACE: " ", NA_OTHER: "€"}


def show(w) -> str:
    return "".join(chr(a) if a < 128 else SHOW[a] for a in w)


def _cat(cat, ascii_flag: bool) -> frozenset[int]:
    if cat in (sc.CATEGORY_DIGIT, sc.CATEGORY_NOT_DIGIT):
        s = {ord(c) for c in string.digits} | (set() if ascii_flag else {NA_DIGIT})
        return frozenset(ALL - s) if cat == sc.CATEGORY_NOT_DIGIT else frozenset(s)
    if cat in (sc.CATEGORY_WORD, sc.CATEGORY_NOT_WORD):
        s = {ord(c) for c in string.ascii_letters + string.digits + "_"} | (set() if ascii_flag else {NA_WORD, NA_DIGIT})
        return frozenset(ALL - s) if cat == sc.CATEGORY_NOT_WORD else frozenset(s)
    if cat in (sc.CATEGORY_SPACE, sc.CATEGORY_NOT_SPACE):
        s = {ord(c) for c in " \t\n\r\f\v"} | (set() if ascii_flag else {NA_SPACE, 0x1C, 0x1D, 0x1E, 0x1F})
        return frozenset(ALL - s) if cat == sc.CATEGORY_NOT_SPACE else frozenset(s)
    raise NotImplementedError(f"regex category {cat}")


def _lit(c: int) -> frozenset[int]:
    return frozenset({c}) if c < 128 else NON_ASCII  # conservative for non-ASCII literals


def _in(items, ascii_flag: bool) -> frozenset[int]:
    neg = False
    s: set[int] = set()
    for op, av in items:
        if op == sc.NEGATE:
            neg = True
        elif op == sc.LITERAL:
            s |= _lit(av)
        elif op == sc.RANGE:
            lo, hi = av
            s |= set(range(lo, min(hi, 127) + 1))
            if hi > 127:
                s |= NON_ASCII
        elif op == sc.CATEGORY:
            s |= _cat(av, ascii_flag)
        else:
            raise NotImplementedError(f"regex class item {op}")
    return frozenset(ALL - s) if neg else frozenset(s)


class NFA:
    def __init__(self) -> None:
        self.n = 0
        self.eps: dict[int, set[int]] = collections.defaultdict(set)
        self.tr: dict[int, list[tuple[frozenset[int], int]]] = collections.defaultdict(list)
        self.start = self.new()
        self.final: set[int] = set()

    def new(self) -> int:
        self.n += 1
        return self.n - 1

    # ---- construction from re._parser items
    def build(self, items, ascii_flag: bool, cur: int, dotall: bool = False) -> int:
        for op, av in items:
            if op == sc.LITERAL:
                n = self.new()
                self.tr[cur].append((_lit(av), n))
                cur = n
            elif op == sc.NOT_LITERAL:
                n = self.new()
                self.tr[cur].append((frozenset(ALL - _lit(av)), n))
                cur = n
            elif op == sc.ANY:
                n = self.new()
                self.tr[cur].append((ALL if dotall else frozenset(ALL - {10}), n))
                cur = n
            elif op == sc.IN:
                n = self.new()
                self.tr[cur].append((_in(av, ascii_flag), n))
                cur = n
            elif op == sc.SUBPATTERN:
                cur = self.build(av[3], ascii_flag, cur, dotall)
            elif op == sc.BRANCH:
                end = self.new()
                for alt in av[1]:
                    s = self.new()
                    self.eps[cur].add(s)
                    e = self.build(alt, ascii_flag, s, dotall)
                    self.eps[e].add(end)
                cur = end
            elif op in (sc.MAX_REPEAT, sc.MIN_REPEAT, getattr(sc, "POSSESSIVE_REPEAT", None)):
                lo, hi, body = av
                for _ in range(lo):
                    cur = self.build(body, ascii_flag, cur, dotall)
                if hi == sc.MAXREPEAT:
                    s = self.new()
                    self.eps[cur].add(s)
                    e = self.build(body, ascii_flag, s, dotall)
                    self.eps[e].add(s)
                    end = self.new()
                    self.eps[s].add(end)
                    cur = end
                else:
                    end = self.new()
                    self.eps[cur].add(end)
                    for _ in range(hi - lo):
                        cur = self.build(body, ascii_flag, cur, dotall)
                        self.eps[cur].add(end)
                    cur = end
            elif op == sc.AT:
                continue  # anchors ignored: languages are full-match languages
            else:
                raise NotImplementedError(f"regex construct {op}")
        return cur

    def eclose(self, S) -> frozenset[int]:
        st = list(S)
        S = set(S)
        while st:
            q = st.pop()
            for r in self.eps[q]:
                if r not in S:
                    S.add(r)
                    st.append(r)
        return frozenset(S)

    def step(self, S, a: int) -> frozenset[int]:
        return self.eclose({r for q in S for (cls, r) in self.tr[q] if a in cls})

    def init(self) -> frozenset[int]:
        return self.eclose({self.start})

    def accepts(self, S) -> bool:
        return bool(self.final & S)


def from_regex(pattern: str, flags: int = 0) -> NFA:
    t = sp.parse(pattern, flags)
    flags = t.state.flags
    nfa = NFA()
    e = nfa.build(list(t), bool(flags & re.ASCII), nfa.start, bool(flags & re.DOTALL))
    nfa.final = {e}
    return nfa


def match_language(pattern: str, flags: int, method: str) -> NFA:
    """The set of whole strings on which `re.compile(pattern, flags).<method>(s)` succeeds, for method in
    fullmatch / match.  `fullmatch` ignores the anchors; `match` without a trailing anchor accepts every extension of
    a matching prefix, with a trailing `$` accepts the match and the match followed by one line feed (Python's `$`),
    and with a trailing `\\Z` accepts exactly the match."""
    t = sp.parse(pattern, flags)
    items = list(t)
    body = from_regex(pattern, flags)
    if method == "fullmatch":
        return body
    if method != "match":
        raise NotImplementedError(f"regex method {method}")
    if flags & re.MULTILINE:
        raise NotImplementedError("MULTILINE match language")
    last = items[-1] if items else None
    if last is not None and last[0] == sc.AT and last[1] == sc.AT_END_STRING:
        return body
    if last is not None and last[0] == sc.AT and last[1] == sc.AT_END:
        return union(body, concat(body, from_classes([frozenset({10})])))
    return concat(body, from_classes([ALL], star_last=True))


def from_classes(classes: list[frozenset[int]], star_last: bool = False) -> NFA:
    """Language c0 c1 ... (last class starred if star_last)."""
    nfa = NFA()
    cur = nfa.start
    for i, c in enumerate(classes):
        if star_last and i == len(classes) - 1:
            nfa.tr[cur].append((c, cur))
        else:
            n = nfa.new()
            nfa.tr[cur].append((c, n))
            cur = n
    nfa.final = {cur}
    return nfa


def union(*ns: NFA) -> NFA:
    out = NFA()
    for n in ns:
        off = out.n
        out.n += n.n
        for q, rs in n.eps.items():
            out.eps[q + off] |= {r + off for r in rs}
        for q, trs in n.tr.items():
            out.tr[q + off] += [(c, r + off) for c, r in trs]
        out.eps[out.start].add(n.start + off)
        out.final |= {f + off for f in n.final}
    return out


def concat(a: NFA, b: NFA) -> NFA:
    out = NFA()
    offs = []
    for n in (a, b):
        off = out.n
        offs.append(off)
        out.n += n.n
        for q, rs in n.eps.items():
            out.eps[q + off] |= {r + off for r in rs}
        for q, trs in n.tr.items():
            out.tr[q + off] += [(c, r + off) for c, r in trs]
    out.eps[out.start].add(a.start + offs[0])
    for f in a.final:
        out.eps[f + offs[0]].add(b.start + offs[1])
    out.final = {f + offs[1] for f in b.final}
    return out


def included(A: NFA, B: NFA, alphabet=ATOMS):
    """L(A) ⊆ L(B)?  Returns None if included, else a shortest witness (list of atoms) in L(A) \\ L(B)."""
    start = (A.init(), B.init())
    seen = {start: None}
    q = collections.deque([start])
    while q:
        cur = q.popleft()
        SA, SB = cur
        if A.accepts(SA) and not B.accepts(SB):
            w = []
            while seen[cur] is not None:
                cur, a = seen[cur]
                w.append(a)
            return w[::-1]
        for a in alphabet:
            na = A.step(SA, a)
            if not na:
                continue
            nx = (na, B.step(SB, a))
            if nx not in seen:
                seen[nx] = (cur, a)
                q.append(nx)
    return None


def intersect_witness(A: NFA, B: NFA, alphabet=ATOMS):
    """Shortest word in L(A) ∩ L(B), or None if the intersection is empty."""
    start = (A.init(), B.init())
    seen = {start: None}
    q = collections.deque([start])
    while q:
        cur = q.popleft()
        SA, SB = cur
        if A.accepts(SA) and B.accepts(SB):
            w = []
            while seen[cur] is not None:
                cur, a = seen[cur]
                w.append(a)
            return w[::-1]
        for a in alphabet:
            na, nb = A.step(SA, a), B.step(SB, a)
            if not na or not nb:
                continue
            nx = (na, nb)
            if nx not in seen:
                seen[nx] = (cur, a)
                q.append(nx)
    return None


def plus(S: NFA) -> NFA:
    out = union(S)
    for f in out.final:
        out.eps[f].add(out.start)
    return out


def strip_suffix_image(L: NFA, S: NFA, fixpoint: bool = False) -> NFA:
    """Image of L under 'remove one trailing S-suffix if the word ends with one, else keep':
    H = (L / S) ∪ (L \\ Σ*S), built as an NFA over subset states (determinised product).
    With fixpoint=True the suffix is removed repeatedly: H = ((L / S+) ∪ L) \\ Σ*S."""
    S_one = S
    if fixpoint:
        S = plus(S)
    # determinise L
    dstates: dict[frozenset[int], int] = {}
    order: list[frozenset[int]] = []
    trans: dict[tuple[int, int], int] = {}

    def sid(S_):
        if S_ not in dstates:
            dstates[S_] = len(order)
            order.append(S_)
        return dstates[S_]

    q = collections.deque([L.init()])
    sid(L.init())
    while q:
        cur = q.popleft()
        for a in ATOMS:
            nx = L.step(cur, a)
            if not nx:
                continue
            new = nx not in dstates
            trans[(dstates[cur], a)] = sid(nx)
            if new:
                q.append(nx)
    # quotient finals: states from which some word of S leads to an L-final state
    def can_finish_with_S(state_idx: int) -> bool:
        start = (state_idx, S.init())
        seen = {start}
        dq = collections.deque([start])
        while dq:
            d, ss = dq.popleft()
            if L.accepts(order[d]) and S.accepts(ss) :
                return True
            for a in ATOMS:
                if (d, a) in trans:
                    ns = S.step(ss, a)
                    if ns:
                        nx = (trans[(d, a)], ns)
                        if nx not in seen:
                            seen.add(nx)
                            dq.append(nx)
        return False

    quo = NFA()
    quo.n = len(order)
    quo.start = 0
    for (d, a), t in trans.items():
        quo.tr[d].append((frozenset({a}), t))
    # a word w is in L/S iff reading w reaches d with can_finish_with_S(d) via a NON-EMPTY S word;
    # S languages used here never contain the empty word, so plain check suffices
    quo.final = {d for d in range(len(order)) if can_finish_with_S(d)}
    # second component: L minus Σ*S  -> product of L-DFA with complement of Σ*S
    sigma_star_S = concat(from_classes([ALL], star_last=True), S_one)
    if fixpoint:
        # words of the quotient that still end in S are stripped further: remove them
        quo = _minus_suffix(quo, sigma_star_S)
    keep = NFA()
    pstates: dict[tuple[int, frozenset[int]], int] = {}

    def pid(x):
        if x not in pstates:
            pstates[x] = keep.new() if pstates else keep.start
        return pstates[x]

    st0 = (0, sigma_star_S.init())
    pid(st0)
    dq = collections.deque([st0])
    while dq:
        cur = dq.popleft()
        d, ss = cur
        if L.accepts(order[d]) and not sigma_star_S.accepts(ss):
            keep.final.add(pstates[cur])
        for a in ATOMS:
            if (d, a) in trans:
                nx = (trans[(d, a)], sigma_star_S.step(ss, a))
                new = nx not in pstates
                keep.tr[pid(cur)].append((frozenset({a}), pid(nx)))
                if new:
                    dq.append(nx)
    return union(quo, keep)


def _minus_suffix(A: NFA, B: NFA) -> NFA:
    """L(A) \\ L(B) as an NFA (product of A's subset states with B's subset states)."""
    out = NFA()
    ids: dict = {}

    def pid(x):
        if x not in ids:
            ids[x] = out.new() if ids else out.start
        return ids[x]

    st0 = (A.init(), B.init())
    pid(st0)
    dq = collections.deque([st0])
    while dq:
        cur = dq.popleft()
        sa, sb = cur
        if A.accepts(sa) and not B.accepts(sb):
            out.final.add(ids[cur])
        for a in ATOMS:
            na = A.step(sa, a)
            if not na:
                continue
            nx = (na, B.step(sb, a))
            new = nx not in ids
            out.tr[pid(cur)].append((frozenset({a}), pid(nx)))
            if new:
                dq.append(nx)
    return out


# ---------------------------------------------------------------------------------------------
# exponential ambiguity (ReDoS)


class _Glushkov:
    def __init__(self, ascii_flag: bool):
        self.pos: list[frozenset[int]] = []
        self.follow: dict[int, set[int]] = collections.defaultdict(set)
        self.ascii = ascii_flag

    def atom(self, cls):
        self.pos.append(frozenset(cls))
        i = len(self.pos) - 1
        return (False, {i}, {i})

    def seq(self, parts):
        null, first, last = True, set(), set()
        for n, f, l in parts:
            for a in last:
                self.follow[a] |= f
            if null:
                first |= f
            last = (last | l) if n else set(l)
            null = null and n
        return (null, first, last)

    def one(self, op, av):
        if op == sc.LITERAL:
            return self.atom(_lit(av))
        if op == sc.NOT_LITERAL:
            return self.atom(ALL - _lit(av))
        if op == sc.ANY:
            return self.atom(ALL - {10})
        if op == sc.IN:
            return self.atom(_in(av, self.ascii))
        if op == sc.SUBPATTERN:
            return self.seq([self.one(o, a) for o, a in av[3]])
        if op == sc.BRANCH:
            null, first, last = False, set(), set()
            for alt in av[1]:
                n, f, l = self.seq([self.one(o, a) for o, a in alt])
                null |= n
                first |= f
                last |= l
            return (null, first, last)
        if op in (sc.MAX_REPEAT, sc.MIN_REPEAT, getattr(sc, "POSSESSIVE_REPEAT", None)):
            lo, hi, body = av
            parts = [self.seq([self.one(o, a) for o, a in body]) for _ in range(lo)]
            if hi == sc.MAXREPEAT:
                n, f, l = self.seq([self.one(o, a) for o, a in body])
                for a in l:
                    self.follow[a] |= f
                parts.append((True, f, l))
            else:
                for _ in range(hi - lo):
                    n, f, l = self.seq([self.one(o, a) for o, a in body])
                    parts.append((True, f, l))
            return self.seq(parts)
        if op == sc.AT:
            return (True, set(), set())
        raise NotImplementedError(f"regex construct {op}")


def _ambiguous_items(items, ascii_flag: bool):
    """Is the position automaton of `items` ambiguous (two different accepting runs on one word)?
    Returns a witness pair of differing positions or None."""
    g = _Glushkov(ascii_flag)
    null, first, last = g.seq([g.one(o, a) for o, a in items])

    def succ(p):
        return first if p == -1 else g.follow[p]

    def final(p):
        return (p in last) or (p == -1 and null)

    start = (-1, -1)
    seen = {start}
    st = [start]
    edges = collections.defaultdict(set)
    while st:
        p, q = st.pop()
        for i in succ(p):
            for j in succ(q):
                if g.pos[i] & g.pos[j]:
                    edges[(p, q)].add((i, j))
                    if (i, j) not in seen:
                        seen.add((i, j))
                        st.append((i, j))
    co = {x for x in seen if final(x[0]) and final(x[1])}
    changed = True
    while changed:
        changed = False
        for a, bs in edges.items():
            if a not in co and bs & co:
                co.add(a)
                changed = True
    for p, q in seen:
        if p != q and (p, q) in co:
            return (p, q, sorted(g.pos[p] & g.pos[q])[:3] if p >= 0 and q >= 0 else [])
    return None


def _nullable(op, av) -> bool:
    if op in (sc.MAX_REPEAT, sc.MIN_REPEAT):
        return av[0] == 0 or all(_nullable(o, a) for o, a in av[2])
    if op == sc.SUBPATTERN:
        return all(_nullable(o, a) for o, a in av[3])
    if op == sc.BRANCH:
        return any(all(_nullable(o, a) for o, a in alt) for alt in av[1])
    if op == sc.AT:
        return True
    return False


def _has_unbounded(items) -> bool:
    for op, av in items:
        if op in (sc.MAX_REPEAT, sc.MIN_REPEAT):
            if av[1] == sc.MAXREPEAT:
                return True
            if _has_unbounded(av[2]):
                return True
        elif op == sc.SUBPATTERN and _has_unbounded(av[3]):
            return True
        elif op == sc.BRANCH and any(_has_unbounded(alt) for alt in av[1]):
            return True
    return False


def redos(pattern: str, flags: int = 0) -> list[str]:
    """Unbounded repeats whose iterated body language is ambiguous (exponentially many ways to split
    one string among iterations) and that are followed, inside the pattern, by something that can
    fail to match — the classic catastrophic-backtracking shape.  Returns descriptions."""
    t = sp.parse(pattern, flags)
    ascii_flag = bool(t.state.flags & re.ASCII)
    out: list[str] = []

    def walk(items, tail_can_fail: bool) -> None:
        items = list(items)
        for k, (op, av) in enumerate(items):
            rest = items[k + 1 :]
            rest_nonnull = any(not _nullable(o, a) for o, a in rest) or tail_can_fail
            if op in (sc.MAX_REPEAT, sc.MIN_REPEAT):
                lo, hi, body = av
                if hi == sc.MAXREPEAT and _has_unbounded(body):
                    w = _ambiguous_items([(sc.MAX_REPEAT, (0, sc.MAXREPEAT, body))], ascii_flag)
                    if w is not None and rest_nonnull:
                        chars = "".join(chr(c) if 32 < c < 127 else f"\\x{c:02x}" for c in w[2] if c < 128)
                        out.append(f"starred group with an inner unbounded repeat is ambiguous (e.g. on characters `{chars}`) and is followed by a failable continuation")
                walk(body, True)
            elif op == sc.SUBPATTERN:
                walk(av[3], rest_nonnull)
            elif op == sc.BRANCH:
                for alt in av[1]:
                    walk(alt, rest_nonnull)

    walk(t, False)
    return out


# ---------------------------------------------------------------------------------------------
# Python output languages of the format specs used by the printers (trusted table, see DESIGN §3)

PY_INT = r"-?[0-9]+"
PY_FLOAT_REPR = r"-?(?:[0-9]+\.[0-9]+|[1-9](?:\.[0-9]+)?e[-+][0-9]{2,3}|inf|nan)"
PY_BOOL_LOWER = r"true|false"
