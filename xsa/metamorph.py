"""Metamorphic robustness test of the checkers: rewrite every function of a scratch copy of xdsl by a
behaviour-preserving, purely syntactic transformation and run the checks on the result.  A VIOLATION that appears only on
the transformed tree is a false alarm of a recogniser that reads spelling instead of meaning.

    tools/metamorph.py <transform> <root> [--files a.py b.py]     rewrite <root>/xdsl in place (a scratch worktree!)

The thorough tier of every check applies each transform to a scratch copy of the analysed tree (xsa/selftest.py) and
requires identical findings.

transforms:
    identity    parse + unparse only (comments and layout dropped)
    rename      every local variable of every function gets the suffix `_mm` (parameters, globals, imports untouched)
    invert      `if c: A else: B`  ->  `if not c: B else: A`   (plain if/else, no elif on the else side)
    nest        `if a and b: X` (no else)  ->  `if a: if b: X`
    dewalrus    `if (v := e) <cmp>: ...` / `while`-free: hoists a walrus that is the first thing the if-test evaluates
    demorgan    `if not (a and b)` <-> `if not a or not b` on if tests
    tmpreturn   `return E` -> `_ret_mm = E; return _ret_mm`
    returnelse  `if c: <exit>` REST -> `if c: <exit> else: REST`
    guardclause trailing `if c: BODY` of a function -> `if not c: return` BODY
    ifexp       `x = a if c else b` / `return a if c else b` -> if / else statements
    compr       `xs = [E for v in IT if C]` -> explicit loop with append
    enwalrus    `x = E` + `if x ...` -> `if (x := E) ...`
    swapcmp     `a < b` -> `b > a` on simple operands
    anyloop     `if any(P for v in IT)` -> flag loop with break, then `if flag`
    extractcond `if a and b:` -> `if _mm_cond_K(locals...)` with a module-level private predicate helper
    matchtoif   `match S:` over value patterns -> `_m_mm = S; if _m_mm == V1: ... elif ...`
"""

from __future__ import annotations

import ast
import copy
import sys
from pathlib import Path


def _function_locals(fn: ast.AST) -> set[str]:
    params = {a.arg for a in fn.args.posonlyargs + fn.args.args + fn.args.kwonlyargs}  # type: ignore[attr-defined]
    if fn.args.vararg:  # type: ignore[attr-defined]
        params.add(fn.args.vararg.arg)  # type: ignore[attr-defined]
    if fn.args.kwarg:  # type: ignore[attr-defined]
        params.add(fn.args.kwarg.arg)  # type: ignore[attr-defined]
    stored: set[str] = set()
    banned: set[str] = set(params)
    for n in ast.walk(fn):
        if n is fn:
            continue
        if isinstance(n, (ast.FunctionDef, ast.AsyncFunctionDef, ast.Lambda, ast.ClassDef)):
            return set()  # nested scopes: leave the whole function alone
        if isinstance(n, (ast.Global, ast.Nonlocal)):
            banned |= set(n.names)
        if isinstance(n, (ast.Import, ast.ImportFrom)):
            for a in n.names:
                banned.add((a.asname or a.name).split(".")[0])
        if isinstance(n, ast.Call) and isinstance(n.func, ast.Name) and n.func.id in ("locals", "vars", "eval", "exec", "globals"):
            return set()
        if isinstance(n, ast.Name) and isinstance(n.ctx, (ast.Store, ast.Del)):
            stored.add(n.id)
        if isinstance(n, ast.ExceptHandler) and n.name:
            stored.add(n.name)
        if isinstance(n, (ast.MatchAs, ast.MatchStar)) and n.name:
            stored.add(n.name)
        if isinstance(n, ast.MatchMapping) and n.rest:
            stored.add(n.rest)
    return {s for s in stored - banned if not s.startswith("__")}


class Rename(ast.NodeTransformer):
    def visit_FunctionDef(self, node: ast.FunctionDef):
        names = _function_locals(node)
        if not names:
            # still descend into methods of nested classes etc.
            self.generic_visit(node)
            return node

        class R(ast.NodeTransformer):
            def visit_Name(self, n: ast.Name):
                if n.id in names:
                    n.id = n.id + "_mm"
                return n

            def visit_ExceptHandler(self, n: ast.ExceptHandler):
                if n.name in names:
                    n.name = n.name + "_mm"
                self.generic_visit(n)
                return n

            def visit_MatchAs(self, n: ast.MatchAs):
                if n.name in names:
                    n.name = n.name + "_mm"
                self.generic_visit(n)
                return n

            def visit_MatchStar(self, n: ast.MatchStar):
                if n.name in names:
                    n.name = n.name + "_mm"
                return n

            def visit_MatchMapping(self, n: ast.MatchMapping):
                if n.rest in names:
                    n.rest = n.rest + "_mm"
                self.generic_visit(n)
                return n

        node.body = [R().visit(s) for s in node.body]
        return node

    visit_AsyncFunctionDef = visit_FunctionDef  # type: ignore[assignment]


def _neg(e: ast.expr) -> ast.expr:
    if isinstance(e, ast.UnaryOp) and isinstance(e.op, ast.Not):
        return e.operand
    return ast.UnaryOp(op=ast.Not(), operand=e)


class Invert(ast.NodeTransformer):
    def visit_If(self, node: ast.If):
        self.generic_visit(node)
        if node.orelse and not (len(node.orelse) == 1 and isinstance(node.orelse[0], ast.If)):
            # a walrus in the test binds on both branches either way
            return ast.copy_location(ast.If(test=_neg(node.test), body=node.orelse, orelse=node.body), node)
        return node


class Nest(ast.NodeTransformer):
    def visit_If(self, node: ast.If):
        self.generic_visit(node)
        if not node.orelse and isinstance(node.test, ast.BoolOp) and isinstance(node.test.op, ast.And) and len(node.test.values) >= 2:
            first, rest = node.test.values[0], node.test.values[1:]
            inner_test = rest[0] if len(rest) == 1 else ast.BoolOp(op=ast.And(), values=rest)
            return ast.copy_location(ast.If(test=first, body=[ast.If(test=inner_test, body=node.body, orelse=[])], orelse=[]), node)
        return node


class DeMorgan(ast.NodeTransformer):
    def visit_If(self, node: ast.If):
        self.generic_visit(node)
        t = node.test
        if isinstance(t, ast.UnaryOp) and isinstance(t.op, ast.Not) and isinstance(t.operand, ast.BoolOp):
            b = t.operand
            node.test = ast.BoolOp(op=ast.Or() if isinstance(b.op, ast.And) else ast.And(), values=[_neg(v) for v in b.values])
        elif isinstance(t, ast.BoolOp) and all(isinstance(v, ast.UnaryOp) and isinstance(v.op, ast.Not) for v in t.values):
            node.test = ast.UnaryOp(op=ast.Not(), operand=ast.BoolOp(op=ast.And() if isinstance(t.op, ast.Or) else ast.Or(), values=[v.operand for v in t.values]))  # type: ignore[attr-defined]
        return node


class DeWalrus(ast.NodeTransformer):
    """`if (v := e) is not None:` -> `v = e` / `if v is not None:` when the walrus is the leftmost leaf of the test (the
    first thing evaluated) and the `if` is a plain statement of a block (not an elif: the hoisted assignment would then
    run before the earlier tests)."""

    def _leftmost_walrus(self, t: ast.expr):
        cur = t
        path = []
        while True:
            if isinstance(cur, ast.NamedExpr):
                return cur, path
            if isinstance(cur, ast.Compare):
                path.append((cur, "left"))
                cur = cur.left
            elif isinstance(cur, ast.BoolOp):
                path.append((cur, "values0"))
                cur = cur.values[0]
            elif isinstance(cur, ast.UnaryOp):
                path.append((cur, "operand"))
                cur = cur.operand
            else:
                return None, path

    def _block(self, stmts: list[ast.stmt]) -> list[ast.stmt]:
        out: list[ast.stmt] = []
        for st in stmts:
            st = self.visit(st)
            if isinstance(st, ast.If):
                w, path = self._leftmost_walrus(st.test)
                if w is not None and isinstance(w.target, ast.Name):
                    out.append(ast.copy_location(ast.Assign(targets=[ast.Name(id=w.target.id, ctx=ast.Store())], value=w.value), st))
                    repl = ast.Name(id=w.target.id, ctx=ast.Load())
                    if not path:
                        st.test = repl
                    else:
                        parent, fld = path[-1]
                        if fld == "left":
                            parent.left = repl
                        elif fld == "values0":
                            parent.values[0] = repl
                        else:
                            parent.operand = repl
            out.append(st)
        return out

    def generic_visit(self, node):
        for fld in ("body", "orelse", "finalbody"):
            v = getattr(node, fld, None)
            if isinstance(v, list) and v and isinstance(v[0], ast.stmt):
                if fld == "orelse" and isinstance(node, ast.If) and len(v) == 1 and isinstance(v[0], ast.If):
                    # elif chain: do not hoist in front of the elif, only descend
                    v[0] = self.visit(v[0])
                    continue
                setattr(node, fld, self._block(v))
        for h in getattr(node, "handlers", []) or []:
            h.body = self._block(h.body)
        for c in getattr(node, "cases", []) or []:
            c.body = self._block(c.body)
        return node


def _terminates(body: list[ast.stmt]) -> bool:
    return bool(body) and isinstance(body[-1], (ast.Return, ast.Raise, ast.Continue, ast.Break))


class TmpReturn(ast.NodeTransformer):
    """`return EXPR` -> `_ret_mm = EXPR; return _ret_mm` (EXPR not a plain name / constant)"""

    def _block(self, stmts):
        out = []
        for st in stmts:
            st = self.visit(st)
            if isinstance(st, ast.Return) and st.value is not None and not isinstance(st.value, (ast.Name, ast.Constant)):
                out.append(ast.copy_location(ast.Assign(targets=[ast.Name(id="_ret_mm", ctx=ast.Store())], value=st.value), st))
                out.append(ast.copy_location(ast.Return(value=ast.Name(id="_ret_mm", ctx=ast.Load())), st))
            else:
                out.append(st)
        return out

    def generic_visit(self, node):
        if isinstance(node, ast.Lambda):
            return node
        for fld in ("body", "orelse", "finalbody"):
            v = getattr(node, fld, None)
            if isinstance(v, list) and v and isinstance(v[0], ast.stmt):
                setattr(node, fld, self._block(v))
        for h in getattr(node, "handlers", []) or []:
            h.body = self._block(h.body)
        for c in getattr(node, "cases", []) or []:
            c.body = self._block(c.body)
        return node

    def visit_FunctionDef(self, node):
        if any(isinstance(n, (ast.Yield, ast.YieldFrom)) for n in ast.walk(node)):
            return node
        return self.generic_visit(node)

    visit_AsyncFunctionDef = visit_FunctionDef


class ReturnElse(ast.NodeTransformer):
    """`if c: <terminating>` followed by REST  ->  `if c: <terminating> else: REST`"""

    def _block(self, stmts):
        stmts = [self.visit(s) for s in stmts]
        for i, st in enumerate(stmts):
            if isinstance(st, ast.If) and not st.orelse and _terminates(st.body) and i + 1 < len(stmts):
                rest = self._block_noop(stmts[i + 1 :])
                st.orelse = rest
                return stmts[: i + 1]
        return stmts

    def _block_noop(self, stmts):
        # the tail was already visited; apply the rewrite recursively on it
        for i, st in enumerate(stmts):
            if isinstance(st, ast.If) and not st.orelse and _terminates(st.body) and i + 1 < len(stmts):
                st.orelse = self._block_noop(stmts[i + 1 :])
                return stmts[: i + 1]
        return stmts

    def generic_visit(self, node):
        for fld in ("body", "orelse", "finalbody"):
            v = getattr(node, fld, None)
            if isinstance(v, list) and v and isinstance(v[0], ast.stmt):
                setattr(node, fld, self._block(v))
        for h in getattr(node, "handlers", []) or []:
            h.body = self._block(h.body)
        for c in getattr(node, "cases", []) or []:
            c.body = self._block(c.body)
        return node


class GuardClause(ast.NodeTransformer):
    """last statement of a function `if c: BODY` (no else, function falls off the end)  ->  `if not c: return` + BODY"""

    def visit_FunctionDef(self, node):
        self.generic_visit(node)
        if any(isinstance(n, (ast.Yield, ast.YieldFrom)) for n in ast.walk(node)):
            return node
        last = node.body[-1] if node.body else None
        if isinstance(last, ast.If) and not last.orelse and len(node.body) >= 1 and not any(isinstance(x, ast.NamedExpr) for x in ast.walk(last.test)):
            node.body = node.body[:-1] + [ast.copy_location(ast.If(test=_neg(last.test), body=[ast.Return(value=None)], orelse=[]), last)] + last.body
        return node

    visit_AsyncFunctionDef = visit_FunctionDef


class IfExpToStmt(ast.NodeTransformer):
    """`x = a if c else b` (plain name target)  ->  `if c: x = a else: x = b`"""

    def _block(self, stmts):
        out = []
        for st in stmts:
            st = self.visit(st)
            if isinstance(st, ast.Assign) and len(st.targets) == 1 and isinstance(st.targets[0], ast.Name) and isinstance(st.value, ast.IfExp):
                mk = lambda v: ast.copy_location(ast.Assign(targets=[ast.Name(id=st.targets[0].id, ctx=ast.Store())], value=v), st)
                out.append(ast.copy_location(ast.If(test=st.value.test, body=[mk(st.value.body)], orelse=[mk(st.value.orelse)]), st))
            elif isinstance(st, ast.Return) and isinstance(st.value, ast.IfExp):
                out.append(ast.copy_location(ast.If(test=st.value.test, body=[ast.copy_location(ast.Return(value=st.value.body), st)], orelse=[ast.copy_location(ast.Return(value=st.value.orelse), st)]), st))
            else:
                out.append(st)
        return out

    def generic_visit(self, node):
        if isinstance(node, ast.Lambda):
            return node
        for fld in ("body", "orelse", "finalbody"):
            v = getattr(node, fld, None)
            if isinstance(v, list) and v and isinstance(v[0], ast.stmt):
                setattr(node, fld, self._block(v))
        for h in getattr(node, "handlers", []) or []:
            h.body = self._block(h.body)
        for c in getattr(node, "cases", []) or []:
            c.body = self._block(c.body)
        return node

    def visit_ClassDef(self, node):
        # class-level assignments stay (dataclass fields etc.); methods are rewritten
        node.body = [self.visit(s) if isinstance(s, (ast.FunctionDef, ast.AsyncFunctionDef, ast.ClassDef)) else s for s in node.body]
        return node

    def visit_Module(self, node):
        node.body = [self.visit(s) if isinstance(s, (ast.FunctionDef, ast.AsyncFunctionDef, ast.ClassDef)) else s for s in node.body]
        return node


class ComprToLoop(ast.NodeTransformer):
    """`xs = [E for v in IT if C]` (statement in a function, one generator, plain name targets not used elsewhere in the
    function)  ->  `xs = []` / `for v in IT: if C: xs.append(E)`"""

    def visit_FunctionDef(self, node):
        self.generic_visit(node)
        if any(isinstance(n, (ast.Lambda, ast.FunctionDef, ast.AsyncFunctionDef, ast.ClassDef)) for n in ast.walk(node) if n is not node):
            return node
        counts: dict[str, int] = {}
        for n in ast.walk(node):
            if isinstance(n, ast.Name):
                counts[n.id] = counts.get(n.id, 0) + 1
        params = {a.arg for a in node.args.posonlyargs + node.args.args + node.args.kwonlyargs}

        def block(stmts):
            out = []
            for st in stmts:
                for fld in ("body", "orelse", "finalbody"):
                    v = getattr(st, fld, None)
                    if isinstance(v, list) and v and isinstance(v[0], ast.stmt):
                        setattr(st, fld, block(v))
                for h in getattr(st, "handlers", []) or []:
                    h.body = block(h.body)
                for c in getattr(st, "cases", []) or []:
                    c.body = block(c.body)
                if isinstance(st, ast.Assign) and len(st.targets) == 1 and isinstance(st.targets[0], ast.Name) and isinstance(st.value, ast.ListComp) and len(st.value.generators) == 1 and not st.value.generators[0].is_async:
                    g = st.value.generators[0]
                    tnames = [x.id for x in ast.walk(g.target) if isinstance(x, ast.Name)]
                    inside = sum(1 for x in ast.walk(st.value) if isinstance(x, ast.Name) and x.id in tnames)
                    xs = st.targets[0].id
                    uses_self = any(isinstance(x, ast.Name) and x.id == xs for x in ast.walk(st.value))
                    if tnames and all(t not in params for t in tnames) and sum(counts.get(t, 0) for t in tnames) == inside and not uses_self and not any(isinstance(x, ast.NamedExpr) for x in ast.walk(st.value)):
                        app = ast.Expr(value=ast.Call(func=ast.Attribute(value=ast.Name(id=xs, ctx=ast.Load()), attr="append", ctx=ast.Load()), args=[st.value.elt], keywords=[]))
                        body = [app]
                        for c_ in reversed(g.ifs):
                            body = [ast.If(test=c_, body=body, orelse=[])]
                        out.append(ast.copy_location(ast.Assign(targets=[ast.Name(id=xs, ctx=ast.Store())], value=ast.List(elts=[], ctx=ast.Load())), st))
                        out.append(ast.copy_location(ast.For(target=g.target, iter=g.iter, body=body, orelse=[], type_comment=None), st))
                        continue
                out.append(st)
            return out

        node.body = block(node.body)
        return node

    visit_AsyncFunctionDef = visit_FunctionDef


class MatchToIf(ast.NodeTransformer):
    """`match S: case V1: A  case V2 | V3: B  case _: C` (value / or-of-value patterns and an optional final wildcard, no
    guards, no captures)  ->  `_m_mm = S` / `if _m_mm == V1: A elif _m_mm == V2 or _m_mm == V3: B else: C`.  A value
    pattern compares with `==`, exactly as the rewritten test does."""

    def visit_Match(self, node: ast.Match):
        self.generic_visit(node)

        def vals(p):
            if isinstance(p, ast.MatchValue):
                return [p.value]
            if isinstance(p, ast.MatchOr) and all(isinstance(q, ast.MatchValue) for q in p.patterns):
                return [q.value for q in p.patterns]
            return None

        cases = []
        for i, c in enumerate(node.cases):
            if c.guard is not None:
                return node
            v = vals(c.pattern)
            if v is not None:
                cases.append((v, c.body))
            elif isinstance(c.pattern, ast.MatchAs) and c.pattern.pattern is None and c.pattern.name is None and i == len(node.cases) - 1:
                cases.append((None, c.body))
            else:
                return node
        subj = ast.Name(id="_m_mm", ctx=ast.Load())
        pre = ast.copy_location(ast.Assign(targets=[ast.Name(id="_m_mm", ctx=ast.Store())], value=node.subject), node)

        def test(vs):
            ts = [ast.Compare(left=ast.Name(id="_m_mm", ctx=ast.Load()), ops=[ast.Eq()], comparators=[v]) for v in vs]
            return ts[0] if len(ts) == 1 else ast.BoolOp(op=ast.Or(), values=ts)

        orelse: list[ast.stmt] = []
        for vs, body in reversed(cases):
            if vs is None:
                orelse = body
            else:
                orelse = [ast.copy_location(ast.If(test=test(vs), body=body, orelse=orelse), node)]
        if not orelse or not isinstance(orelse[0], ast.If):
            return node
        return [pre] + orelse


class EnWalrus(ast.NodeTransformer):
    """`x = E` directly followed by `if <test whose first evaluated leaf is x>`  ->  `if (x := E) ...` (inverse of dewalrus)"""

    def _block(self, stmts):
        out = []
        i = 0
        stmts = [self.visit(s) for s in stmts]
        while i < len(stmts):
            st = stmts[i]
            nxt = stmts[i + 1] if i + 1 < len(stmts) else None
            if isinstance(st, ast.Assign) and len(st.targets) == 1 and isinstance(st.targets[0], ast.Name) and isinstance(nxt, ast.If) and not isinstance(st.value, (ast.Constant, ast.Name)):
                cur, parent, fld = nxt.test, None, None
                while True:
                    if isinstance(cur, ast.Compare):
                        parent, fld, cur = cur, "left", cur.left
                    elif isinstance(cur, ast.BoolOp):
                        parent, fld, cur = cur, "values0", cur.values[0]
                    elif isinstance(cur, ast.UnaryOp):
                        parent, fld, cur = cur, "operand", cur.operand
                    else:
                        break
                if isinstance(cur, ast.Name) and cur.id == st.targets[0].id and not any(isinstance(x, ast.Name) and x.id == cur.id for x in ast.walk(st.value)):
                    w = ast.NamedExpr(target=ast.Name(id=cur.id, ctx=ast.Store()), value=st.value)
                    if parent is None:
                        nxt.test = w
                    elif fld == "left":
                        parent.left = w
                    elif fld == "values0":
                        parent.values[0] = w
                    else:
                        parent.operand = w
                    out.append(nxt)
                    i += 2
                    continue
            out.append(st)
            i += 1
        return out

    def generic_visit(self, node):
        if isinstance(node, ast.Lambda):
            return node
        for fld in ("body", "orelse", "finalbody"):
            v = getattr(node, fld, None)
            if isinstance(v, list) and v and isinstance(v[0], ast.stmt):
                setattr(node, fld, self._block(v))
        for h in getattr(node, "handlers", []) or []:
            h.body = self._block(h.body)
        for c in getattr(node, "cases", []) or []:
            c.body = self._block(c.body)
        return node

    def visit_ClassDef(self, node):
        node.body = [self.visit(s) if isinstance(s, (ast.FunctionDef, ast.AsyncFunctionDef, ast.ClassDef)) else s for s in node.body]
        return node

    def visit_Module(self, node):
        node.body = [self.visit(s) if isinstance(s, (ast.FunctionDef, ast.AsyncFunctionDef, ast.ClassDef)) else s for s in node.body]
        return node


class SwapCmp(ast.NodeTransformer):
    """`a < b` -> `b > a` (and <=, >, >=) when both operands are names / attribute chains / integer constants"""

    def visit_Compare(self, node: ast.Compare):
        self.generic_visit(node)
        simple = lambda e: isinstance(e, ast.Name) or (isinstance(e, ast.Constant) and isinstance(e.value, int) and not isinstance(e.value, bool)) or (isinstance(e, ast.Attribute) and simple(e.value))
        if len(node.ops) == 1 and isinstance(node.ops[0], (ast.Lt, ast.LtE, ast.Gt, ast.GtE)) and simple(node.left) and simple(node.comparators[0]):
            flip = {ast.Lt: ast.Gt, ast.LtE: ast.GtE, ast.Gt: ast.Lt, ast.GtE: ast.LtE}[type(node.ops[0])]
            return ast.copy_location(ast.Compare(left=node.comparators[0], ops=[flip()], comparators=[node.left]), node)
        return node


class AnyToLoop(ast.NodeTransformer):
    """`if any(P for v in IT): ...` / `if not any(...)` / `if all(...)` (the whole test, one generator, plain name targets
    not used elsewhere)  ->  a flag loop with break in front of the `if`, which then tests the flag"""

    def visit_FunctionDef(self, node):
        self.generic_visit(node)
        if any(isinstance(n, (ast.Lambda, ast.FunctionDef, ast.AsyncFunctionDef, ast.ClassDef)) for n in ast.walk(node) if n is not node):
            return node
        counts: dict[str, int] = {}
        for n in ast.walk(node):
            if isinstance(n, ast.Name):
                counts[n.id] = counts.get(n.id, 0) + 1
        params = {a.arg for a in node.args.posonlyargs + node.args.args + node.args.kwonlyargs}
        k = [0]

        def block(stmts):
            out = []
            for st in stmts:
                for fld in ("body", "orelse", "finalbody"):
                    v = getattr(st, fld, None)
                    if isinstance(v, list) and v and isinstance(v[0], ast.stmt):
                        setattr(st, fld, block(v))
                for h in getattr(st, "handlers", []) or []:
                    h.body = block(h.body)
                for c in getattr(st, "cases", []) or []:
                    c.body = block(c.body)
                if isinstance(st, ast.If):
                    t, neg = st.test, False
                    while isinstance(t, ast.UnaryOp) and isinstance(t.op, ast.Not):
                        t, neg = t.operand, not neg
                    if isinstance(t, ast.Call) and isinstance(t.func, ast.Name) and t.func.id in ("any", "all") and len(t.args) == 1 and isinstance(t.args[0], ast.GeneratorExp) and len(t.args[0].generators) == 1 and not t.args[0].generators[0].is_async:
                        g = t.args[0].generators[0]
                        tnames = [x.id for x in ast.walk(g.target) if isinstance(x, ast.Name)]
                        inside = sum(1 for x in ast.walk(t) if isinstance(x, ast.Name) and x.id in tnames)
                        if tnames and all(tn not in params for tn in tnames) and sum(counts.get(tn, 0) for tn in tnames) == inside and not any(isinstance(x, ast.NamedExpr) for x in ast.walk(t)):
                            k[0] += 1
                            flag = f"_q{k[0]}_mm"
                            is_any = t.func.id == "any"
                            hit = t.args[0].elt if is_any else _neg(t.args[0].elt)
                            for c_ in reversed(g.ifs):
                                hit = ast.BoolOp(op=ast.And(), values=[c_, hit])
                            body = [ast.If(test=hit, body=[ast.Assign(targets=[ast.Name(id=flag, ctx=ast.Store())], value=ast.Constant(is_any)), ast.Break()], orelse=[])]
                            out.append(ast.copy_location(ast.Assign(targets=[ast.Name(id=flag, ctx=ast.Store())], value=ast.Constant(not is_any)), st))
                            out.append(ast.copy_location(ast.For(target=g.target, iter=g.iter, body=body, orelse=[], type_comment=None), st))
                            st.test = _neg(ast.Name(id=flag, ctx=ast.Load())) if neg else ast.Name(id=flag, ctx=ast.Load())
                out.append(st)
            return out

        node.body = block(node.body)
        return node

    visit_AsyncFunctionDef = visit_FunctionDef


class ExtractCond(ast.NodeTransformer):
    """`if TEST:` inside a function, TEST a boolean combination (and / or / not) with at least two operands  ->
    `if _mm_cond_K(<locals TEST reads>):` with a module-level private helper `def _mm_cond_K(...): return TEST`.
    Skipped when TEST binds names (walrus), awaits, yields, uses lambdas / comprehensions (scoping), or mentions
    double-underscore attributes (class-private name mangling)."""

    def visit_Module(self, node: ast.Module):
        self.helpers: list[ast.FunctionDef] = []
        self.k = 0
        node.body = [self._top(s) for s in node.body]
        # helpers go after the last import / docstring so that module globals they read are defined when they run
        node.body = node.body + self.helpers
        return node

    def _top(self, st):
        if isinstance(st, (ast.FunctionDef, ast.AsyncFunctionDef)):
            return self._func(st)
        if isinstance(st, ast.ClassDef):
            st.body = [self._top(x) for x in st.body]
        return st

    def _func(self, fn):
        if any(isinstance(n, (ast.FunctionDef, ast.AsyncFunctionDef, ast.ClassDef, ast.Lambda)) for n in ast.walk(fn) if n is not fn):
            return fn
        a = fn.args
        locals_ = {x.arg for x in a.posonlyargs + a.args + a.kwonlyargs} | ({a.vararg.arg} if a.vararg else set()) | ({a.kwarg.arg} if a.kwarg else set())
        for n in ast.walk(fn):
            if isinstance(n, ast.Name) and isinstance(n.ctx, (ast.Store, ast.Del)):
                locals_.add(n.id)
            if isinstance(n, ast.ExceptHandler) and n.name:
                locals_.add(n.name)
            if isinstance(n, (ast.MatchAs, ast.MatchStar)) and n.name:
                locals_.add(n.name)
            if isinstance(n, (ast.Global, ast.Nonlocal)):
                return fn
            if isinstance(n, (ast.Import, ast.ImportFrom)):
                for al in n.names:
                    locals_.add((al.asname or al.name).split(".")[0])
        outer = self

        class T(ast.NodeTransformer):
            def visit_If(self, node: ast.If):
                self.generic_visit(node)
                t = node.test
                if not isinstance(t, ast.BoolOp) or len(t.values) < 2:
                    return node
                for x in ast.walk(t):
                    if isinstance(x, (ast.NamedExpr, ast.Await, ast.Yield, ast.YieldFrom, ast.Lambda, ast.ListComp, ast.SetComp, ast.DictComp, ast.GeneratorExp)):
                        return node
                    if isinstance(x, ast.Attribute) and x.attr.startswith("__") and not x.attr.endswith("__"):
                        return node
                    if isinstance(x, ast.Name) and x.id.startswith("__") and not x.id.endswith("__"):
                        return node
                used = []
                for x in ast.walk(t):
                    if isinstance(x, ast.Name) and x.id in locals_ and x.id not in used:
                        used.append(x.id)
                outer.k += 1
                name = f"_mm_cond_{outer.k}"
                helper = ast.FunctionDef(name=name, args=ast.arguments(posonlyargs=[], args=[ast.arg(arg=u) for u in used], kwonlyargs=[], kw_defaults=[], defaults=[]), body=[ast.Return(value=t)], decorator_list=[], lineno=node.lineno, col_offset=0)
                outer.helpers.append(helper)
                node.test = ast.copy_location(ast.Call(func=ast.Name(id=name, ctx=ast.Load()), args=[ast.Name(id=u, ctx=ast.Load()) for u in used], keywords=[]), t)
                return node

        fn.body = [T().visit(s) for s in fn.body]
        return fn


TRANSFORMS = {"extractcond": ExtractCond, "enwalrus": EnWalrus, "swapcmp": SwapCmp, "anyloop": AnyToLoop, "matchtoif": MatchToIf, "tmpreturn": TmpReturn, "returnelse": ReturnElse, "guardclause": GuardClause, "ifexp": IfExpToStmt, "compr": ComprToLoop, "identity": None, "rename": Rename, "invert": Invert, "nest": Nest, "dewalrus": DeWalrus, "demorgan": DeMorgan}




def rewrite_tree(tname: str, root: Path, files: list[Path] | None = None) -> int:
    """Rewrite every .py file under root/xdsl (or the given files) with the transform `tname`; returns the number of files."""
    files = files if files is not None else sorted((root / "xdsl").rglob("*.py"))
    n = 0
    for p in files:
        src = p.read_text()
        try:
            tree = ast.parse(src)
        except SyntaxError:
            continue
        T = TRANSFORMS[tname]
        new = T().visit(tree) if T is not None else tree  # the tree was parsed for this purpose: rewritten in place
        ast.fix_missing_locations(new)
        out = ast.unparse(new) + "\n"
        p.write_text(out)
        n += 1
    return n
