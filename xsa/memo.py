"""Memoisation sites: where a function answers from a table that was filled on an earlier call (or an earlier iteration).

    sites_of_function(fn)  ->  list[MemoSite]

Idioms recognised:
  * decorator caches: @functools.cache / @cache / @lru_cache(...) / @cached_property
  * fill-on-miss tables: a store `T[K] = V` (also `x = T[K] = V`, `T.setdefault(K, V)`) that is control dependent on a miss
    test of the same table and key (`K not in T`, `T.get(K) is None`, a local bound to `T.get(K)` tested for None, an early
    return on a hit), where T outlives the computation: a module-level name, an attribute chain rooted at `self` or at a
    parameter (`obj.__dict__` included), or a local table filled inside a loop
  * visited marks: `K in T` / `K not in T` tested and `T.add(K)` in the same function, T persistent as above

The judgements below are generic; which sites are acceptable for a property is decided by the rule that calls them
(xsa/memo_rule.py: the sites of today's tree are listed there with the reason why each is sound)."""

from __future__ import annotations

import ast
import re
from dataclasses import dataclass, field

from .astutil import guard_facts, unparse, walk_local

CACHE_DECORATORS = ("cache", "functools.cache", "lru_cache", "functools.lru_cache", "cached_property", "functools.cached_property")
FRESH_CALLS = ("dict", "set", "list", "defaultdict", "OrderedDict", "Counter", "OrderedSet", "deque", "WeakKeyDictionary", "WeakValueDictionary")


@dataclass
class MemoSite:
    fn: ast.AST
    kind: str  # "decorator" | "table" | "mark"
    table: str  # text of the table expression ("" for decorator caches)
    key: ast.expr | None
    value: ast.expr | None
    node: ast.AST  # the decorator / the store
    local_table: bool = False
    notes: list[str] = field(default_factory=list)
    inputs: list[str] = field(default_factory=list)  # what varies between two uses of the table: the parameters of the
    # function for a table that outlives the call, the loop variables around the store for a local table

    def describe(self) -> str:
        if self.kind == "decorator":
            return f"@{unparse(self.node)}"
        return f"{self.table}[{unparse(self.key) if self.key is not None else '?'}]"


def params_of(fn) -> list[str]:
    a = fn.args
    return [x.arg for x in a.posonlyargs + a.args + a.kwonlyargs]


def _fresh(v: ast.AST) -> bool:
    return isinstance(v, (ast.Dict, ast.Set, ast.List, ast.DictComp, ast.SetComp, ast.ListComp)) or (isinstance(v, ast.Call) and unparse(v.func).split("[")[0] in FRESH_CALLS)


def _locals_defs(fn) -> dict[str, list[ast.AST]]:
    out: dict[str, list[ast.AST]] = {}
    for n in ast.walk(fn):
        if isinstance(n, ast.Assign) and len(n.targets) >= 1:
            for t in n.targets:
                if isinstance(t, ast.Name):
                    out.setdefault(t.id, []).append(n.value)
        elif isinstance(n, ast.AnnAssign) and isinstance(n.target, ast.Name) and n.value is not None:
            out.setdefault(n.target.id, []).append(n.value)
        elif isinstance(n, ast.NamedExpr):
            out.setdefault(n.target.id, []).append(n.value)
    return out


def sites_of_function(fn: ast.AST) -> list[MemoSite]:
    out: list[MemoSite] = []
    for d in getattr(fn, "decorator_list", []):
        if unparse(d.func if isinstance(d, ast.Call) else d) in CACHE_DECORATORS:
            out.append(MemoSite(fn, "decorator", "", None, None, d))
    defs = _locals_defs(fn)
    pn = set(params_of(fn))
    fresh_locals = {nm for nm, vs in defs.items() if nm not in pn and any(_fresh(v) for v in vs)}
    other_locals = {nm for nm in defs if nm not in pn} - fresh_locals

    def root(table: str) -> str:
        return table.split(".")[0].split("[")[0]

    def in_loop(node: ast.AST) -> bool:
        for w in walk_local(fn):
            if isinstance(w, (ast.For, ast.While)) and any(x is node for x in ast.walk(w)):
                return True
        return False

    # stores
    stores: list[tuple[ast.AST, str, ast.expr, ast.expr | None]] = []
    for n in walk_local(fn):
        if isinstance(n, ast.Assign):
            for t in n.targets:
                if isinstance(t, ast.Subscript) and not isinstance(t.slice, ast.Slice):
                    stores.append((n, unparse(t.value), t.slice, n.value))
        if isinstance(n, ast.Call) and isinstance(n.func, ast.Attribute) and n.func.attr == "setdefault" and len(n.args) == 2:
            stores.append((n, unparse(n.func.value), n.args[0], n.args[1]))
    seen_tables = set()
    for st, table, k, v in stores:
        r0 = root(table)
        local = r0 in fresh_locals
        if r0 in other_locals and r0 not in fresh_locals:
            # a local alias of something else: resolve one level (`cache = self._cache`)
            vs = defs.get(r0, [])
            if len(vs) == 1 and isinstance(vs[0], (ast.Attribute, ast.Name)):
                pass
            else:
                continue
        if local and not in_loop(st):
            continue
        kt = unparse(k)
        if (table, kt) in seen_tables:
            continue
        # miss test guarding the store
        holders = {nm for nm, vs in defs.items() if any(isinstance(x, (ast.Call, ast.Subscript)) and (unparse(x).startswith(f"{table}.get({kt}") or unparse(x) == f"{table}[{kt}]") for x in vs)}
        miss = False
        for t, pol in guard_facts(fn, st):
            tt = unparse(t)
            if isinstance(t, ast.Compare) and len(t.ops) == 1 and unparse(t.comparators[0]) == table and unparse(t.left) == kt:
                if (isinstance(t.ops[0], ast.In) and not pol) or (isinstance(t.ops[0], ast.NotIn) and pol):
                    miss = True
            if isinstance(t, ast.Compare) and len(t.ops) == 1 and isinstance(t.comparators[0], ast.Constant) and t.comparators[0].value is None:
                left = t.left.target if isinstance(t.left, ast.NamedExpr) else t.left
                lt = unparse(t.left.value) if isinstance(t.left, ast.NamedExpr) else unparse(t.left)
                is_holder = (isinstance(left, ast.Name) and left.id in holders) or lt.startswith(f"{table}.get({kt}")
                if is_holder and ((isinstance(t.ops[0], ast.Is) and pol) or (isinstance(t.ops[0], ast.IsNot) and not pol)):
                    miss = True
            if tt in holders and not pol:
                miss = True
        if isinstance(st, ast.Call):  # setdefault: fill-on-miss by definition, if the result is used
            miss = True
        if not miss:
            continue
        seen_tables.add((table, kt))
        if local:
            inputs = sorted({x.id for w in walk_local(fn) if isinstance(w, ast.For) and any(y is st for y in ast.walk(w)) for x in ast.walk(w.target) if isinstance(x, ast.Name)})
        else:
            inputs = params_of(fn)
        out.append(MemoSite(fn, "table", table, k, v, st, local_table=local, inputs=inputs))
    # visited marks
    for n in walk_local(fn):
        if isinstance(n, ast.Call) and isinstance(n.func, ast.Attribute) and n.func.attr == "add" and len(n.args) == 1:
            table, kt = unparse(n.func.value), unparse(n.args[0])
            r0 = root(table)
            if r0 in fresh_locals and not in_loop(n):
                continue
            if r0 in other_locals:
                continue
            tests = [c for c in walk_local(fn) if isinstance(c, ast.Compare) and len(c.ops) == 1 and isinstance(c.ops[0], (ast.In, ast.NotIn)) and unparse(c.comparators[0]) == table and unparse(c.left) == kt]
            if tests and (table, kt) not in seen_tables:
                seen_tables.add((table, kt))
                out.append(MemoSite(fn, "mark", table, n.args[0], None, n, local_table=r0 in fresh_locals))
    return out


def float_keyed(site: MemoSite) -> str | None:
    """a float-annotated parameter the cache is keyed on (0.0 == -0.0 with equal hashes: one entry for both zeros)"""
    a = site.fn.args
    fl = [x.arg for x in a.posonlyargs + a.args + a.kwonlyargs if x.annotation is not None and "float" in unparse(x.annotation).replace("FloatAttr", "").replace("AnyFloat", "").replace("FloatData", "")]
    if site.kind == "decorator":
        return fl[0] if fl else None
    if site.key is None:
        return None
    names = {n.id for n in ast.walk(site.key) if isinstance(n, ast.Name)}
    hit = [n for n in fl if n in names]
    return hit[0] if hit else None


def _value_reads(site: MemoSite, depth: int = 4) -> tuple[set[str], set[str]]:
    """(parameters the stored value is computed from, parameters handed whole to a call in that computation)"""
    pn = set(site.inputs or params_of(site.fn))
    defs = _locals_defs(site.fn)
    seen: set[str] = set()
    whole: set[str] = set()

    def walk(e: ast.AST, d: int) -> set[str]:
        out: set[str] = set()
        for n in ast.walk(e):
            if isinstance(n, ast.Call):
                for a_ in list(n.args) + [k.value for k in n.keywords]:
                    if isinstance(a_, ast.Name) and a_.id in pn:
                        whole.add(a_.id)
            if isinstance(n, ast.Name):
                if n.id in pn:
                    out.add(n.id)
                elif d > 0 and n.id not in seen and n.id in defs:
                    seen.add(n.id)
                    for v in defs[n.id]:
                        out |= walk(v, d - 1)
        return out

    return (walk(site.value, depth) if site.value is not None else set()), whole


def key_cover(site: MemoSite) -> tuple[set[str], set[str]]:
    """(parameters that are key components as they are, parameters of which the key keeps only a projection)"""
    if site.key is None:
        return set(), set()
    pn = set(site.inputs or params_of(site.fn))
    defs = _locals_defs(site.fn)
    bare: set[str] = set()
    proj: set[str] = set()

    def comp(c: ast.AST, d: int = 3) -> None:
        if isinstance(c, ast.Tuple):
            for e in c.elts:
                comp(e, d)
            return
        if isinstance(c, ast.Name):
            if c.id in pn:
                bare.add(c.id)
            elif d > 0 and len(defs.get(c.id, [])) == 1:
                comp(defs[c.id][0], d - 1)
            return
        for n in ast.walk(c):
            if isinstance(n, ast.Name) and n.id in pn:
                proj.add(n.id)

    comp(site.key)
    return bare, proj - bare


def key_misses(site: MemoSite) -> list[str]:
    """parameters the cached value is computed from that the key does not mention at all"""
    if site.kind != "table" or site.value is None:
        return []
    used, _ = _value_reads(site)
    bare, proj = key_cover(site)
    troot = {n.id for n in ast.walk(ast.parse(site.table, mode="eval")) if isinstance(n, ast.Name)}
    return sorted(p for p in used - bare - proj - troot if p not in ("cls",))


def projected(site: MemoSite) -> list[str]:
    """parameters handed whole to the cached computation while the key keeps only a projection of them (`type(op)`,
    `spec.name`, `frozenset(spec.parameters)` - the keys of a dict without its values)"""
    if site.kind != "table" or site.value is None:
        return []
    used, whole = _value_reads(site)
    bare, proj = key_cover(site)
    return sorted(p for p in proj if p in whole and p != "self")


def returns_mutable(fn: ast.AST) -> bool:
    """a decorator-cached function whose result is a mutable container built in the function"""
    defs = _locals_defs(fn)
    for n in walk_local(fn):
        if isinstance(n, ast.Return) and n.value is not None:
            v = n.value
            if _fresh(v) or (isinstance(v, ast.Name) and any(_fresh(x) for x in defs.get(v.id, []))):
                return True
    return False


IR_MUTABLE = ("Operation", "IRDLOperation", "Block", "Region", "ModuleOp", "SSAValue", "OpResult", "BlockArgument")


def stale_on_ir_object(site: MemoSite, module_tree: ast.AST | None = None) -> str | None:
    """A fill-on-miss table that lives *on* an IR object handed in as a parameter (`obj.__dict__[k]`, `op._memo[k]`) and
    whose value is computed from that same object.  Operations, blocks, regions and values are mutable through their public
    API (attribute / property dictionaries, operand and successor setters, insertion and erasure) and have no hook that would
    tell a foreign cache; unless the module drops the entry somewhere, it outlives the state it was computed from.
    Returns the parameter, or None."""
    if site.kind != "table" or site.value is None:
        return None
    a = site.fn.args
    ann = {x.arg: unparse(x.annotation) for x in a.posonlyargs + a.args + a.kwonlyargs if x.annotation is not None}
    root = site.table.split(".")[0].split("[")[0]
    if root not in ann or not any(re.search(rf"\b{t}\b", ann[root]) for t in IR_MUTABLE):
        return None
    if site.table == root:
        return None
    used, _ = _value_reads(site)
    if root not in used:
        return None
    # only class-level information of the object is read: nothing that can change
    defs = _locals_defs(site.fn)
    exprs = [site.value] + [v for vs in defs.values() for v in vs]
    reads = [n for e in exprs for n in ast.walk(e) if isinstance(n, ast.Name) and n.id == root]
    par: dict[int, ast.AST] = {}
    for e in exprs:
        for n in ast.walk(e):
            for c in ast.iter_child_nodes(n):
                par[id(c)] = n
    state = False
    for n in reads:
        p_ = par.get(id(n))
        if isinstance(p_, ast.Call) and unparse(p_.func) in ("type", "id") and p_.args and p_.args[0] is n:
            continue
        if isinstance(p_, ast.Attribute) and p_.attr in ("__class__", "__dict__"):
            continue
        state = True
    if not state:
        return None
    if module_tree is not None:
        tail = site.table.split(".", 1)[1] if "." in site.table else ""
        for n in ast.walk(module_tree):
            if isinstance(n, ast.Delete) and any(tail and tail in unparse(t) for t in n.targets):
                return None
            if isinstance(n, ast.Call) and isinstance(n.func, ast.Attribute) and n.func.attr in ("pop", "clear", "popitem") and tail and tail in unparse(n.func.value):
                return None
    return root
