"""Shapes of the strings an expression can evaluate to: a finite set of alternatives, each a sequence of atoms

    ("lit", text)                    a literal piece
    ("str", resolved source text)    an opaque string-valued expression (e.g. value.name_hint)
    ("int", resolved source text, nonzero)   the decimal rendering of an integer expression; `nonzero` is True when
                                     the branch that produces it is taken only if the expression is != 0

f-strings, `+` concatenation, conditional expressions, if/else assigned locals (through reaching definitions) and
single-return helper methods are followed.  Rules turn the alternatives into regular languages (regexlang) instead of
matching the text of the statements that build a name."""

from __future__ import annotations

import ast

from .astutil import conjuncts, guard_facts, unparse
from .cfg import CFG
from .dataflow import reaching_defs, resolved_text

Alt = tuple


def _nonzero_names(facts) -> set[str]:
    out = set()
    for t, pol in facts:
        for a, p in conjuncts(t, pol):
            if isinstance(a, ast.Compare) and len(a.ops) == 1 and isinstance(a.comparators[0], ast.Constant) and a.comparators[0].value == 0 and not isinstance(a.comparators[0].value, bool):
                if (isinstance(a.ops[0], ast.NotEq) and p) or (isinstance(a.ops[0], ast.Eq) and not p) or (isinstance(a.ops[0], ast.Gt) and p):
                    out.add(unparse(a.left))
            elif isinstance(a, ast.Name) and p:
                out.add(a.id)
    return out


class StrLang:
    def __init__(self, fn: ast.AST, cfg: CFG | None = None, methods: dict[str, ast.FunctionDef] | None = None, int_names: set[str] | None = None):
        self.fn = fn
        self.cfg = cfg or CFG(fn)  # type: ignore[arg-type]
        self.methods = methods or {}
        self.int_names = int_names or set()

    def _opaque(self, e: ast.AST, at: int, nz: set[str]) -> list[Alt]:
        txt = resolved_text(self.cfg, e, at)
        return [(("str", txt),)]

    def _int(self, e: ast.AST, at: int, nz: set[str]) -> list[Alt]:
        txt = resolved_text(self.cfg, e, at)
        return [(("int", txt, unparse(e) in nz or txt in nz),)]

    def alts(self, e: ast.AST, at: int, nz: set[str] | None = None, depth: int = 6, as_format: bool = False) -> list[Alt]:
        nz = nz or set()
        if depth <= 0:
            return self._opaque(e, at, nz)
        if isinstance(e, ast.Constant):
            if isinstance(e.value, str):
                return [(("lit", e.value),)] if e.value else [()]
            if isinstance(e.value, int) and as_format:
                return [(("lit", str(e.value)),)]
            return self._opaque(e, at, nz)
        if isinstance(e, ast.JoinedStr):
            out: list[Alt] = [()]
            for part in e.values:
                if isinstance(part, ast.FormattedValue):
                    if part.format_spec is not None or part.conversion not in (-1, 115):
                        pa = self._opaque(part, at, nz)
                    else:
                        pa = self.alts(part.value, at, nz, depth, as_format=True)
                else:
                    pa = self.alts(part, at, nz, depth)
                out = [a + b for a in out for b in pa]
            return out
        if isinstance(e, ast.BinOp) and isinstance(e.op, ast.Add) and not as_format:
            l, r = self.alts(e.left, at, nz, depth), self.alts(e.right, at, nz, depth)
            return [a + b for a in l for b in r]
        if isinstance(e, ast.IfExp):
            t = self.alts(e.body, at, nz | _nonzero_names([(e.test, True)]), depth, as_format)
            f = self.alts(e.orelse, at, nz | _nonzero_names([(e.test, False)]), depth, as_format)
            return t + f
        if isinstance(e, ast.Call):
            f = unparse(e.func)
            if f == "str" and len(e.args) == 1:
                return self.alts(e.args[0], at, nz, depth, as_format=True)
            if isinstance(e.func, ast.Attribute) and unparse(e.func.value) == "self" and e.func.attr in self.methods and not e.args:
                g = self.methods[e.func.attr]
                rets = [r for r in ast.walk(g) if isinstance(r, ast.Return) and r.value is not None]
                if len(rets) == 1:
                    sub = StrLang(g, None, self.methods, self.int_names)
                    return sub.alts(rets[0].value, sub.cfg.node_of(rets[0]), set(), depth - 1, as_format)
            if as_format and (f == "len" or f.endswith(".get") and len(e.args) == 2 and isinstance(e.args[1], ast.Constant) and isinstance(e.args[1].value, int)):
                return self._int(e, at, nz)
            return self._opaque(e, at, nz)
        if isinstance(e, ast.Name):
            defs = reaching_defs(self.cfg, e.id, at)
            if not defs or any(nid == self.cfg.entry or v is None for nid, v in defs):
                if e.id in self.int_names and as_format:
                    return self._int(e, at, nz)
                return self._opaque(e, at, nz)
            out = []
            for nid, v in defs:
                st = self.cfg.nodes[nid].ast
                facts = guard_facts(self.fn, st) if st is not None else []
                is_int = isinstance(v, ast.Call) and (unparse(v.func).endswith(".get") and len(v.args) == 2 and isinstance(v.args[1], ast.Constant) and isinstance(v.args[1].value, int) and not isinstance(v.args[1].value, bool) or unparse(v.func) == "len") or isinstance(v, ast.BinOp) and isinstance(v.op, (ast.Add, ast.Sub)) and as_format and not isinstance(v.left, (ast.JoinedStr,)) and not (isinstance(v.left, ast.Constant) and isinstance(v.left.value, str))
                if is_int and as_format:
                    # rendered integer: keep the *name* for the nonzero test, the definition for the text
                    out.append((("int", resolved_text(self.cfg, v, nid), e.id in nz or e.id in _nonzero_names(facts)),))
                else:
                    out.extend(self.alts(v, nid, nz | _nonzero_names(facts), depth - 1, as_format))
            return out
        if isinstance(e, ast.BinOp) and as_format:
            return self._int(e, at, nz)
        return self._opaque(e, at, nz)


def show(alt: Alt) -> str:
    parts = []
    for a in alt:
        if a[0] == "lit":
            parts.append(repr(a[1]))
        elif a[0] == "str":
            parts.append("{" + a[1] + "}")
        else:
            parts.append("{int " + a[1] + (" != 0" if a[2] else "") + "}")
    return " ".join(parts) or "''"
