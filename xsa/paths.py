"""Structured path summaries of a function body.

`enum_paths(fn)` enumerates the acyclic paths of a function with loops collapsed into single effects.  Each path
carries the branch facts that select it (atoms with polarity, `astutil.conjuncts`), the ordered effects (statements,
evaluated tests, collapsed loops) and how it ends (return value / fall through / raise).  Rules state what must happen
"on every path on which C holds" and compare *effects*, not statement layout: an if/else, a guard clause with early
return, inverted conditions with swapped branches and hoisted conditions all give the same summaries.

`element_calls(path, cfg-free resolver)` flattens the effects of a path into the ordered list of method calls applied
to the elements of collections: `for e in (*A, b, *C): e.m(x)` and `for e in A: e.m(x)`, `b.m(x)`, `for e in C: e.m(x)`
both yield [("all", "A", "m"), ("elem", "b", "m"), ("all", "C", "m")]."""

from __future__ import annotations

import ast
from dataclasses import dataclass, field

from .astutil import conjuncts, unparse
from .srcindex import AnalysisError

LIMIT = 2048


@dataclass
class Loop:
    node: ast.AST  # For / While
    body: list["Path"]


@dataclass
class Path:
    facts: list[tuple[ast.AST, bool]] = field(default_factory=list)
    effects: list[object] = field(default_factory=list)  # ast.stmt | ("test", expr) | Loop | ("except", handler)
    end: str = "fall"  # fall | return | raise | break | continue
    value: ast.AST | None = None

    def fork(self) -> "Path":
        return Path(list(self.facts), list(self.effects), self.end, self.value)

    def fact_texts(self) -> list[tuple[str, bool]]:
        return [(unparse(t), p) for t, p in self.facts]


def _seq(stmts: list[ast.stmt], live: list[Path]) -> list[Path]:
    done: list[Path] = []
    for st in stmts:
        nxt: list[Path] = []
        for p in live:
            for q in _stmt(st, p):
                (nxt if q.end == "fall" else done).append(q)
        live = nxt
        if len(live) + len(done) > LIMIT:
            raise AnalysisError("path enumeration: too many paths")
        if not live:
            break
    return done + live


def _branch(p: Path, test: ast.expr, pol: bool) -> Path:
    q = p.fork()
    q.effects.append(("test", test))
    q.facts.extend(conjuncts(test, pol))
    return q


def _stmt(st: ast.stmt, p: Path) -> list[Path]:
    if isinstance(st, ast.If):
        return _seq(st.body, [_branch(p, st.test, True)]) + _seq(st.orelse, [_branch(p, st.test, False)])
    if isinstance(st, (ast.For, ast.AsyncFor, ast.While)):
        body = _seq(st.body, [Path()])
        out = []
        q = p.fork()
        q.effects.append(Loop(st, body))
        if isinstance(st, ast.While) and not (isinstance(st.test, ast.Constant) and st.test.value is True):
            q.facts.extend(conjuncts(st.test, False)) if not any(b.end == "break" for b in body) else None
        # a while True loop only leaves through break / return / raise
        falls = not (isinstance(st, ast.While) and isinstance(st.test, ast.Constant) and st.test.value is True) or any(b.end == "break" for b in body)
        if falls:
            out.extend(_seq(st.orelse, [q]) if st.orelse else [q])
        for b in body:
            if b.end in ("return", "raise"):
                e = p.fork()
                e.effects.append(Loop(st, body))
                e.facts.extend(b.facts)
                e.end, e.value = b.end, b.value
                out.append(e)
        return out
    if isinstance(st, (ast.With, ast.AsyncWith)):
        q = p.fork()
        q.effects.append(("with", st))
        return _seq(st.body, [q])
    if isinstance(st, ast.Try):
        out = _seq(st.body, [p.fork()])
        res: list[Path] = []
        for o in out:
            if o.end == "fall" and st.orelse:
                res.extend(_seq(st.orelse, [o]))
            else:
                res.append(o)
        for h in st.handlers:
            q = p.fork()
            q.effects.append(("except", h))
            res.extend(_seq(h.body, [q]))
        if st.finalbody:
            fin: list[Path] = []
            for o in res:
                if o.end == "fall":
                    fin.extend(_seq(st.finalbody, [o]))
                else:
                    fin.append(o)
            res = fin
        return res
    if isinstance(st, ast.Match):
        out = []
        covered = False
        for c in st.cases:
            q = p.fork()
            q.effects.append(("test", st.subject))
            q.facts.append((ast.Compare(left=st.subject, ops=[ast.Eq()], comparators=[ast.Constant(unparse(c.pattern))]), True))
            if c.guard is not None:
                q.facts.extend(conjuncts(c.guard, True))
            out.extend(_seq(c.body, [q]))
            if isinstance(c.pattern, ast.MatchAs) and c.pattern.pattern is None and c.guard is None:
                covered = True
        if not covered:
            out.append(p.fork())
        return out
    q = p.fork()
    if isinstance(st, ast.Return):
        q.effects.append(st)
        q.end, q.value = "return", st.value
    elif isinstance(st, ast.Raise):
        q.effects.append(st)
        q.end, q.value = "raise", st.exc
    elif isinstance(st, ast.Break):
        q.end = "break"
    elif isinstance(st, ast.Continue):
        q.end = "continue"
    elif isinstance(st, ast.Pass):
        pass
    else:
        q.effects.append(st)
    return [q]


def enum_paths(fn: ast.AST) -> list[Path]:
    body = fn.body if hasattr(fn, "body") else fn  # type: ignore[attr-defined]
    return _seq(list(body), [Path()])


# -- flattening of "call a method on every element" effects -------------------------------------------------------------


def _method_on(var: str, st: ast.AST) -> tuple[str, ast.Call] | None:
    if isinstance(st, ast.Expr) and isinstance(st.value, ast.Call) and isinstance(st.value.func, ast.Attribute):
        if unparse(st.value.func.value) == var:
            return st.value.func.attr, st.value
    return None


def element_calls(path: Path, seq_eval=None, at=None) -> list[tuple[str, str, str]] | None:
    """Ordered (kind, base, method) of the element-wise method calls of a path (see module docstring).
    Effects that are not of that form are skipped; a loop whose body is not a single unconditional method call on the
    loop variable makes the result None (unknown)."""
    out: list[tuple[str, str, str]] = []
    for e in path.effects:
        if isinstance(e, Loop) and isinstance(e.node, ast.For) and isinstance(e.node.target, ast.Name):
            var = e.node.target.id
            if len(e.body) != 1 or e.body[0].end != "fall":
                return None
            calls = [_method_on(var, s) for s in e.body[0].effects if isinstance(s, ast.AST)]
            if not calls or any(c is None for c in calls) or len(calls) != len(e.body[0].effects):
                if any(var in unparse(s) for s in e.body[0].effects if isinstance(s, ast.AST)):
                    return None
                continue
            segs = seq_eval.eval(e.node.iter, seq_eval.cfg.node_of(e.node)) if seq_eval is not None else None
            if segs is None:
                segs = (("all", unparse(e.node.iter)),)
            for kind, *rest in segs:
                for m, _ in calls:  # type: ignore[misc]
                    if kind == "slice":
                        out.append(("slice", f"{rest[0]}[{rest[1] or ''}:{rest[2] or ''}]", m))
                    else:
                        out.append((kind, rest[0], m))
        elif isinstance(e, ast.Expr) and isinstance(e.value, ast.Call) and isinstance(e.value.func, ast.Attribute):
            out.append(("elem", unparse(e.value.func.value), e.value.func.attr))
    return out
