"""Structured path summaries of a function body.

`enum_paths(fn)` enumerates the acyclic paths of a function with loops collapsed into single effects.  Each path
carries the branch facts that select it (atoms with polarity, `astutil.conjuncts`), the ordered effects (statements,
evaluated tests, collapsed loops) and how it ends (return value / fall through / raise).  Rules state what must happen
"on every path on which C holds" and compare *effects*, not statement layout: an if/else, a guard clause with early
return, inverted conditions with swapped branches and hoisted conditions all give the same summaries.

`element_calls(path, cfg-free resolver)` flattens the effects of a path into the ordered list of method calls applied
to the elements of collections: `for e in (*A, b, *C): e.m(x)` and `for e in A: e.m(x)`, `b.m(x)`, `for e in C: e.m(x)`
both yield [("all", "A", "m"), ("elem", "b", "m"), ("all", "C", "m")]."""

from __future__ import annotations

import ast
import copy
from dataclasses import dataclass, field

from .astutil import conjuncts, unparse
from .srcindex import AnalysisError

LIMIT = 2048


@dataclass
class Loop:
    node: ast.AST  # For / While
    body: list["Path"]


class _Sub(ast.NodeTransformer):
    def __init__(self, env: dict[str, ast.AST]):
        self.env = env

    def visit_Name(self, node: ast.Name):
        if isinstance(node.ctx, ast.Load) and node.id in self.env and self.env[node.id] is not None:
            return copy.deepcopy(self.env[node.id])
        return node

    def visit_NamedExpr(self, node: ast.NamedExpr):
        return self.visit(node.value)

    def visit_Lambda(self, node):
        return node

    visit_ListComp = visit_SetComp = visit_DictComp = visit_GeneratorExp = visit_Lambda


def subst(e: ast.AST, env: dict[str, ast.AST]) -> ast.AST:
    return ast.fix_missing_locations(_Sub(env).visit(copy.deepcopy(e)))


class _FoldSpec(ast.NodeTransformer):
    """f'{v:.{9}g}' -> f'{v:.9g}': a constant substituted into a nested format spec becomes literal text."""

    def visit_JoinedStr(self, node: ast.JoinedStr):
        self.generic_visit(node)
        vals: list[ast.AST] = []
        for v in node.values:
            if isinstance(v, ast.FormattedValue) and v.conversion == -1 and v.format_spec is None and isinstance(v.value, ast.Constant) and isinstance(v.value.value, (int, str)) and not isinstance(v.value.value, bool):
                v = ast.Constant(value=str(v.value.value))
            if isinstance(v, ast.Constant) and vals and isinstance(vals[-1], ast.Constant):
                vals[-1] = ast.Constant(value=str(vals[-1].value) + str(v.value))
            else:
                vals.append(v)
        node.values = vals
        return node


@dataclass
class Path:
    facts: list[tuple[ast.AST, bool]] = field(default_factory=list)
    effects: list[object] = field(default_factory=list)  # ast.stmt | ("test", expr) | Loop | ("except", handler)
    end: str = "fall"  # fall | return | raise | break | continue
    value: ast.AST | None = None
    env: dict[str, ast.AST | None] = field(default_factory=dict)  # local name -> expression it stands for on this path
    envs: list[dict] = field(default_factory=list)  # env before each effect
    rfacts: list[tuple[ast.AST, bool]] = field(default_factory=list)  # facts with locals replaced (path-sensitive)

    def fork(self) -> "Path":
        return Path(list(self.facts), list(self.effects), self.end, self.value, dict(self.env), list(self.envs), list(self.rfacts))

    def fact_texts(self) -> list[tuple[str, bool]]:
        return [(unparse(t), p) for t, p in self.facts]

    def rfact_texts(self) -> list[tuple[str, bool]]:
        return [(unparse(t), p) for t, p in self.rfacts]

    def add(self, eff) -> None:
        self.effects.append(eff)
        self.envs.append(dict(self.env))

    def res(self, e: ast.AST, k: int | None = None) -> str:
        """Text of `e` with the locals replaced by what they stand for before effect k (default: at the end)."""
        env = self.env if k is None else self.envs[k]
        return unparse(_FoldSpec().visit(subst(e, env)))

    def nfacts(self) -> set[tuple[str, bool]]:
        """Normalised resolved facts (astutil.norm_fact)."""
        from .astutil import norm_fact

        return {norm_fact(_FoldSpec().visit(copy.deepcopy(t)), p) for t, p in self.rfacts}

    def feasible(self) -> bool:
        """False when two resolved facts contradict each other (same atom, both polarities): the path tests the same
        bound value twice with different outcomes."""
        nf = self.nfacts()
        if any((t, not p) in nf for t, p in nf):
            return False
        # comparisons between two literals (after substitution of the locals) decide themselves
        for t, p in nf:
            if not any(tok in t for tok in ("None", "True", "False")) and not t[:1].isdigit() and not t[:1] in "'\"-":
                continue
            try:
                e = ast.parse(t, mode="eval").body
            except SyntaxError:
                continue
            if isinstance(e, ast.Constant) and (e.value is None or isinstance(e.value, (bool, int, float, str))):
                # a flag that is a known constant on this path (`ok = False` ... `if ok:`)
                if bool(e.value) != p:
                    return False
                continue
            if isinstance(e, ast.Compare) and len(e.ops) == 1 and isinstance(e.left, ast.Constant) and isinstance(e.comparators[0], ast.Constant):
                a, b = e.left.value, e.comparators[0].value
                op = e.ops[0]
                if isinstance(op, ast.Is):
                    v = (a is b) if (a is None or b is None or isinstance(a, bool) or isinstance(b, bool)) else None
                elif isinstance(op, ast.Eq):
                    v = a == b
                else:
                    v = None
                if v is not None and v != p:
                    return False
        return True

    def rvalue(self) -> str | None:
        return None if self.value is None else self.res(self.value, len(self.effects) - 1 if self.effects else None)

    def _bind(self, st: ast.AST) -> None:
        for x in ast.walk(st) if not isinstance(st, (ast.FunctionDef, ast.ClassDef)) else []:
            if isinstance(x, ast.NamedExpr) and isinstance(x.target, ast.Name):
                self.env[x.target.id] = subst(x.value, self.env)
        if isinstance(st, ast.Assign) and len(st.targets) == 1:
            t = st.targets[0]
            if isinstance(t, ast.Name):
                self.env[t.id] = subst(st.value, self.env)
                return
            if isinstance(t, (ast.Tuple, ast.List)) and isinstance(st.value, (ast.Tuple, ast.List)) and len(t.elts) == len(st.value.elts):
                vals = [subst(v, self.env) for v in st.value.elts]
                for a, v in zip(t.elts, vals):
                    if isinstance(a, ast.Name):
                        self.env[a.id] = v
                return
            if isinstance(t, (ast.Tuple, ast.List)) and all(isinstance(a, ast.Name) for a in t.elts):
                base = subst(st.value, self.env)
                for i, a in enumerate(t.elts):
                    self.env[a.id] = ast.Subscript(value=copy.deepcopy(base), slice=ast.Constant(i), ctx=ast.Load())
                return
        if isinstance(st, ast.AnnAssign) and isinstance(st.target, ast.Name) and st.value is not None:
            self.env[st.target.id] = subst(st.value, self.env)
            return
        for x in ast.walk(st):
            if isinstance(x, ast.Name) and isinstance(x.ctx, (ast.Store, ast.Del)) and not any(isinstance(y, ast.NamedExpr) and y.target is x for y in ast.walk(st)):
                self.env[x.id] = None


def _seq(stmts: list[ast.stmt], live: list[Path]) -> list[Path]:
    done: list[Path] = []
    for st in stmts:
        nxt: list[Path] = []
        for p in live:
            for q in _stmt(st, p):
                (nxt if q.end == "fall" else done).append(q)
        live = nxt
        if len(live) + len(done) > LIMIT:
            raise AnalysisError("path enumeration: too many paths")
        if not live:
            break
    return done + live


def _branch(p: Path, test: ast.expr, pol: bool) -> Path:
    q = p.fork()
    q.add(("test", test))
    q.rfacts.extend(conjuncts(subst(test, q.env), pol))
    q._bind(ast.Expr(value=test))
    q.facts.extend(conjuncts(test, pol))
    return q


def _stmt(st: ast.stmt, p: Path) -> list[Path]:
    if isinstance(st, ast.If):
        return _seq(st.body, [_branch(p, st.test, True)]) + _seq(st.orelse, [_branch(p, st.test, False)])
    if isinstance(st, (ast.For, ast.AsyncFor, ast.While)):
        stored = {x.id for x in ast.walk(st) if isinstance(x, ast.Name) and isinstance(x.ctx, (ast.Store, ast.Del))}
        body = _seq(st.body, [Path(env={k: v for k, v in p.env.items() if k not in stored and v is not None and not (stored & {y.id for y in ast.walk(v) if isinstance(y, ast.Name)})})])
        out = []
        q = p.fork()
        q.add(Loop(st, body))
        for x in ast.walk(st):
            if isinstance(x, ast.Name) and isinstance(x.ctx, (ast.Store, ast.Del)):
                q.env[x.id] = None
        if isinstance(st, ast.While) and not (isinstance(st.test, ast.Constant) and st.test.value is True):
            q.facts.extend(conjuncts(st.test, False)) if not any(b.end == "break" for b in body) else None
        # a while True loop only leaves through break / return / raise
        falls = not (isinstance(st, ast.While) and isinstance(st.test, ast.Constant) and st.test.value is True) or any(b.end == "break" for b in body)
        if falls:
            out.extend(_seq(st.orelse, [q]) if st.orelse else [q])
        for b in body:
            if b.end in ("return", "raise"):
                e = p.fork()
                e.add(Loop(st, body))
                for x in ast.walk(st):
                    if isinstance(x, ast.Name) and isinstance(x.ctx, (ast.Store, ast.Del)):
                        e.env[x.id] = None
                e.facts.extend(b.facts)
                e.rfacts.extend(b.rfacts)
                e.end, e.value = b.end, b.value
                out.append(e)
        return out
    if isinstance(st, (ast.With, ast.AsyncWith)):
        q = p.fork()
        q.add(("with", st))
        q._bind(st)
        return _seq(st.body, [q])
    if isinstance(st, ast.Try):
        out = _seq(st.body, [p.fork()])
        res: list[Path] = []
        for o in out:
            if o.end == "fall" and st.orelse:
                res.extend(_seq(st.orelse, [o]))
            else:
                res.append(o)
        for h in st.handlers:
            q = p.fork()
            for x in ast.walk(ast.Module(body=st.body, type_ignores=[])):
                if isinstance(x, ast.Name) and isinstance(x.ctx, (ast.Store, ast.Del)):
                    q.env[x.id] = None
            q.add(("except", h))
            res.extend(_seq(h.body, [q]))
        if st.finalbody:
            fin: list[Path] = []
            for o in res:
                if o.end == "fall":
                    fin.extend(_seq(st.finalbody, [o]))
                else:
                    fin.append(o)
            res = fin
        return res
    if isinstance(st, ast.Match):
        out = []
        covered = False
        for c in st.cases:
            q = p.fork()
            q.add(("test", st.subject))
            q.rfacts.append((ast.Compare(left=subst(st.subject, q.env), ops=[ast.Eq()], comparators=[ast.Constant(unparse(c.pattern))]), True))
            q.facts.append((ast.Compare(left=st.subject, ops=[ast.Eq()], comparators=[ast.Constant(unparse(c.pattern))]), True))
            for x in ast.walk(c.pattern):
                if isinstance(x, (ast.MatchAs, ast.MatchStar)) and x.name:
                    q.env[x.name] = None
            if c.guard is not None:
                q.facts.extend(conjuncts(c.guard, True))
                q.rfacts.extend(conjuncts(subst(c.guard, q.env), True))
            out.extend(_seq(c.body, [q]))
            if isinstance(c.pattern, ast.MatchAs) and c.pattern.pattern is None and c.guard is None:
                covered = True
        if not covered:
            out.append(p.fork())
        return out
    if isinstance(st, ast.Return) and isinstance(st.value, ast.IfExp):
        # `return a if c else b`  ==  `if c: return a` / `return b`
        out = []
        for pol, v in ((True, st.value.body), (False, st.value.orelse)):
            b = _branch(p, st.value.test, pol)
            out.extend(_stmt(ast.copy_location(ast.Return(value=v), st), b))
        return out
    if isinstance(st, ast.Assign) and len(st.targets) == 1 and isinstance(st.targets[0], (ast.Name, ast.Attribute)) and isinstance(st.value, ast.IfExp):
        # `x = a if c else b`  ==  `if c: x = a` / `else: x = b`
        out = []
        for pol, v in ((True, st.value.body), (False, st.value.orelse)):
            b = _branch(p, st.value.test, pol)
            out.extend(_stmt(ast.copy_location(ast.Assign(targets=st.targets, value=v), st), b))
        return out
    q = p.fork()
    if isinstance(st, ast.Return):
        q.add(st)
        q.end, q.value = "return", st.value
    elif isinstance(st, ast.Raise):
        q.add(st)
        q.end, q.value = "raise", st.exc
    elif isinstance(st, ast.Break):
        q.end = "break"
    elif isinstance(st, ast.Continue):
        q.end = "continue"
    elif isinstance(st, ast.Pass):
        pass
    else:
        q.add(st)
        q._bind(st)
    return [q]


def enum_paths(fn: ast.AST) -> list[Path]:
    body = fn.body if hasattr(fn, "body") else fn  # type: ignore[attr-defined]
    return _seq(list(body), [Path()])


# -- flattening of "call a method on every element" effects -------------------------------------------------------------


def _method_on(var: str, st: ast.AST) -> tuple[str, ast.Call] | None:
    if isinstance(st, ast.Expr) and isinstance(st.value, ast.Call) and isinstance(st.value.func, ast.Attribute):
        if unparse(st.value.func.value) == var:
            return st.value.func.attr, st.value
    return None


def element_calls(path: Path, seq_eval=None, at=None) -> list[tuple[str, str, str]] | None:
    """Ordered (kind, base, method) of the element-wise method calls of a path (see module docstring).
    Effects that are not of that form are skipped; a loop whose body is not a single unconditional method call on the
    loop variable makes the result None (unknown)."""
    out: list[tuple[str, str, str]] = []
    for e in path.effects:
        if isinstance(e, Loop) and isinstance(e.node, ast.For) and isinstance(e.node.target, ast.Name):
            var = e.node.target.id
            if len(e.body) != 1 or e.body[0].end != "fall":
                return None
            calls = [_method_on(var, s) for s in e.body[0].effects if isinstance(s, ast.AST)]
            if not calls or any(c is None for c in calls) or len(calls) != len(e.body[0].effects):
                if any(var in unparse(s) for s in e.body[0].effects if isinstance(s, ast.AST)):
                    return None
                continue
            segs = seq_eval.eval(e.node.iter, seq_eval.cfg.node_of(e.node)) if seq_eval is not None else None
            if segs is None:
                segs = (("all", unparse(e.node.iter)),)
            for kind, *rest in segs:
                for m, _ in calls:  # type: ignore[misc]
                    if kind == "slice":
                        out.append(("slice", f"{rest[0]}[{rest[1] or ''}:{rest[2] or ''}]", m))
                    else:
                        out.append((kind, rest[0], m))
        elif isinstance(e, ast.Expr) and isinstance(e.value, ast.Call) and isinstance(e.value.func, ast.Attribute):
            out.append(("elem", unparse(e.value.func.value), e.value.func.attr))
    return out


def loops_of(paths: list[Path]) -> list[Loop]:
    """The distinct collapsed loops met on the given paths (outermost level), in source order.  Each Loop gets
    `riter`: the text of its iterable with the locals replaced by what they stand for where the loop starts."""
    seen: dict[int, Loop] = {}
    for p in paths:
        for k, e in enumerate(p.effects):
            if isinstance(e, Loop) and id(e.node) not in seen:
                seen[id(e.node)] = e
                it = getattr(e.node, "iter", None)
                e.riter = p.res(it, k) if it is not None else None  # type: ignore[attr-defined]
    return sorted(seen.values(), key=lambda l: getattr(l.node, "lineno", 0))


def _helper_cases(h: ast.FunctionDef, call: ast.Call, pol: bool, is_method: bool) -> list[list[tuple[ast.AST, bool]]] | None:
    """Conditions (as fact lists over the caller's expressions) under which predicate helper `h`, called as `call`,
    evaluates to `pol`.  None when the helper is not a pure predicate this module can summarise."""
    params = [a.arg for a in h.args.args]
    if is_method:
        params = params[1:]
    if len(params) != len(call.args) or call.keywords or h.args.vararg or h.args.kwarg or h.args.kwonlyargs:
        return None
    env = dict(zip(params, call.args))
    cases = []
    try:
        hp = enum_paths(h)
    except AnalysisError:
        return None
    for p in hp:
        if p.end == "raise":
            continue
        if p.end != "return" or p.value is None:
            return None
        if any(isinstance(e, Loop) for e in p.effects):
            return None
        facts = [(subst(t, env), q) for t, q in p.rfacts]
        v = ast.parse(p.rvalue(), mode="eval").body
        if isinstance(v, ast.Constant) and isinstance(v.value, bool):
            if v.value == pol:
                cases.append(facts)
        else:
            vv = subst(v, env)
            cs = conjuncts(vv, pol)
            if len(cs) == 1 and isinstance(cs[0][0], ast.BoolOp):
                # a disjunction: one case per disjunct
                b = cs[0][0]
                wanted = cs[0][1]
                if (isinstance(b.op, ast.Or) and wanted) or (isinstance(b.op, ast.And) and not wanted):
                    for d in b.values:
                        cases.append(facts + conjuncts(d, wanted))
                    continue
            cases.append(facts + cs)
    return cases


def expand_predicates(paths: list[Path], helpers: dict[str, tuple[ast.FunctionDef, bool]], depth: int = 3) -> list[Path]:
    """Replace facts of the form `self._helper(args)` / `_helper(args)` (private predicate helpers given in
    `helpers`: name -> (def, is_method)) by the conditions under which the helper returns that truth value; a helper
    that can return it in several ways splits the path.  Also splits true disjunctions / false conjunctions."""
    out: list[Path] = []
    work = [(p, depth * 4) for p in paths]
    while work:
        p, fuel = work.pop()
        done = True
        if fuel > 0:
            for i, (t, pol) in enumerate(p.rfacts):
                cases = None
                if isinstance(t, ast.Call):
                    nm = t.func.attr if isinstance(t.func, ast.Attribute) and isinstance(t.func.value, ast.Name) else t.func.id if isinstance(t.func, ast.Name) else None
                    if nm in helpers:
                        cases = _helper_cases(helpers[nm][0], t, pol, helpers[nm][1])
                elif isinstance(t, ast.BoolOp) and ((isinstance(t.op, ast.Or) and pol) or (isinstance(t.op, ast.And) and not pol)):
                    cases = [conjuncts(d, pol) for d in t.values]
                if cases is not None:
                    for c in cases:
                        q = p.fork()
                        q.rfacts = p.rfacts[:i] + list(c) + p.rfacts[i + 1:]
                        work.append((q, fuel - 1))
                    done = False
                    break
        if done:
            out.append(p)
        if len(out) + len(work) > LIMIT:
            raise AnalysisError("predicate expansion: too many cases")
    return out


def refusals(fn: ast.AST) -> list[tuple[tuple[tuple[str, str], ...], frozenset]] | None:
    """How a boolean predicate function can answer False: a list of (iteration chain, facts) where the chain is the
    nest of (loop variable, iterable) the refusing return sits in (generators of `any` / `all` count as loops) and the
    facts are the normalised conditions (locals resolved along the path) under which it is reached.  Loop variables
    are renamed positionally (_v0, _v1, ...) so that differently named but equal nests compare equal.  None when the
    function has a shape this summary does not cover."""
    from .astutil import norm_fact

    out: list[tuple[tuple[tuple[str, str], ...], frozenset]] = []

    def rename(chain, texts):
        ren = {}
        for i, (tg, _) in enumerate(chain):
            for j, nm in enumerate([t.strip() for t in tg.strip("()").split(",") if t.strip()]):
                ren[nm] = f"_v{i}" if j == 0 and "," not in tg else f"_v{i}_{j}"
        import re as _re

        def r(t: str) -> str:
            for k, v in sorted(ren.items(), key=lambda kv: -len(kv[0])):
                t = _re.sub(rf"\b{_re.escape(k)}\b", v, t)
            return t

        return tuple((r(tg), r(it)) for tg, it in chain), frozenset((r(t), p) for t, p in texts)

    def from_value(v: ast.AST, chain, facts, env_path: Path, k) -> bool:
        """refusals contributed by `return v` (v not a constant)"""
        e = ast.parse(env_path.res(v, k), mode="eval").body
        neg = False
        while isinstance(e, ast.UnaryOp) and isinstance(e.op, ast.Not):
            e, neg = e.operand, not neg
        if isinstance(e, ast.Call) and isinstance(e.func, ast.Name) and e.func.id in ("any", "all") and len(e.args) == 1 and isinstance(e.args[0], ast.GeneratorExp):
            g = e.args[0]
            gchain = chain + tuple((unparse(c.target), unparse(c.iter)) for c in g.generators)
            gfacts = set(facts) | {norm_fact(i, True) for c in g.generators for i in c.ifs}
            is_any = e.func.id == "any"
            if is_any and neg:  # not any(P): refused when some P holds
                out.append(rename(gchain, gfacts | {norm_fact(g.elt, True)}))
                return True
            if (not is_any) and not neg:  # all(P): refused when some P fails
                out.append(rename(gchain, gfacts | {norm_fact(g.elt, False)}))
                return True
            return False
        if isinstance(e, ast.BoolOp) and isinstance(e.op, ast.And) and not neg:
            ok = True
            for c in e.values:
                if isinstance(c, ast.Call) and isinstance(c.func, ast.Name) and c.func.id in ("any", "all") or (isinstance(c, ast.UnaryOp) and isinstance(c.operand, ast.Call) and isinstance(c.operand.func, ast.Name) and c.operand.func.id in ("any", "all")):
                    fake = Path()
                    ok = from_value(c, chain, facts, fake, None) and ok
                else:
                    out.append(rename(chain, set(facts) | {norm_fact(c, False)}))
            return ok
        out.append(rename(chain, set(facts) | {norm_fact(e, neg)}))
        return True

    def walk(paths: list[Path], chain, outer_facts) -> bool:
        ok = True
        for p in paths:
            facts = set(outer_facts) | p.nfacts()
            for e in p.effects:
                if isinstance(e, Loop):
                    if isinstance(e.node, ast.For):
                        sub_chain = chain + ((unparse(e.node.target), getattr(e, "riter", None) or unparse(e.node.iter)),)
                    else:
                        sub_chain = chain + (("", unparse(e.node.test)),)
                    # facts established before the loop on this path hold inside it
                    inner = [b for b in e.body if b.end == "return"]
                    ok = walk(inner, sub_chain, facts_before(p, e)) and ok
            if p.end != "return" or p.value is None:
                continue
            if any(isinstance(e, Loop) and any(b.end == "return" and b.value is p.value for b in e.body) for e in p.effects):
                continue  # the return was lifted out of a loop body: handled with its chain above
            if isinstance(p.value, ast.Constant) and isinstance(p.value.value, bool):
                if p.value.value is False:
                    out.append(rename(chain, facts))
                continue
            ok = from_value(p.value, chain, facts, p, len(p.effects) - 1 if p.effects else None) and ok
        return ok

    def facts_before(p: Path, loop: Loop):
        from .astutil import norm_fact as nf_

        return {nf_(t, pol) for t, pol in p.rfacts}

    try:
        paths = enum_paths(fn)
        loops_of(paths)
    except AnalysisError:
        return None
    if not walk(paths, (), set()):
        return None
    return out


def outcomes(fn: ast.AST, atoms: list[str], helpers: dict | None = None) -> list[dict]:
    """One row per feasible path of `fn`: the truth value each of the given atoms has on it (None when the path does
    not depend on it), the resolved texts of the statements executed, how the path ends and what it returns.  Rules
    state their expectation as a decision table over these rows instead of matching statement layout."""
    rows = []
    for p in expand_predicates(enum_paths(fn), helpers or {}):
        if not p.feasible():
            continue
        nf = p.nfacts()
        facts = {a: next((pol for t, pol in nf if t == a), None) for a in atoms}
        effs = []
        for k, e in enumerate(p.effects):
            if isinstance(e, ast.stmt) and not isinstance(e, (ast.Return, ast.Raise)):
                try:
                    if isinstance(e, ast.Expr):
                        effs.append(p.res(e.value, k))
                    elif isinstance(e, ast.Assign) and len(e.targets) == 1:
                        effs.append(f"{unparse(e.targets[0])} = {p.res(e.value, k)}")
                    elif isinstance(e, ast.AugAssign):
                        effs.append(unparse(e))
                    else:
                        effs.append(unparse(e))
                except Exception:
                    effs.append(unparse(e))
        rows.append({"facts": facts, "effects": effs, "end": p.end, "value": p.rvalue(), "path": p, "loops": [e for e in p.effects if isinstance(e, Loop)]})
    return rows
