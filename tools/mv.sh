#!/bin/bash
# tools/mv.sh PROP relpath OLD NEW — one-line summary of a scratch variant (development aid)
/venv/bin/python /verif/tools/var.py "$@" | grep -E "^\s+xdsl|rc=|ANALYSIS|OLD TEXT" | cut -c1-330
