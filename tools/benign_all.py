#!/venv/bin/python
"""tools/benign_all.py [Cxx ...] — apply every behaviour-preserving refactoring under /tmp/wt/<Cxx>/_out/benign/b*/ to a scratch
worktree of the fixes head, run all checks, and aggregate: which (rule, key) raise false alarms (rc 1) / analysis errors (rc 2).
Writes /root/benign_results.json."""
import json, os, re, subprocess, sys, glob
W = "/tmp/wt/vb"
B = subprocess.run("git -C /tmp/wt/fix rev-parse HEAD", shell=True, capture_output=True, text=True).stdout.strip()
CODE = os.environ.get("XSA_CODE", "/verif")  # where the checkers are run from (a frozen copy during long evaluations)
def sh(c, cwd=None, env=None): return subprocess.run(c, shell=True, cwd=cwd, capture_output=True, text=True, env=env)
if not os.path.isdir(W): sh(f"git -C /repo worktree add --detach {W} {B}")
sh(f"git checkout -q -- . && git checkout -q --detach {B}", cwd=W)
B = subprocess.run("git -C /repo rev-parse HEAD", shell=True, capture_output=True, text=True).stdout.strip()
sh(f"git checkout -q -- . && git checkout -q --detach {B}", cwd=W)
props = sys.argv[1:] or sorted({os.path.basename(os.path.dirname(os.path.dirname(os.path.dirname(p)))) for p in glob.glob("/tmp/wt/C*/_out/benign/b1") + glob.glob("/tmp/wt2/C*/_out/benign2/b1") + glob.glob("/tmp/wt2/C*/_out/benign3/b1")})
res = {}
for c in props:
    for m in sorted(glob.glob(f"/tmp/wt/{c}/_out/benign/b*")) + sorted(glob.glob(f"/tmp/wt2/{c}/_out/benign2/b*")) + sorted(glob.glob(f"/tmp/wt2/{c}/_out/benign3/b*")):
        if not os.path.exists(m + "/patch.diff"): continue
        name = f"{c}-{'r3' if 'benign3' in m else 'r2' if 'benign2' in m else 'r1'}-{os.path.basename(m)}"
        r = sh(f"git apply {m}/patch.diff", cwd=W)
        if r.returncode != 0:
            res[name] = {"applies": False}; print(name, "DOES NOT APPLY"); continue
        out = f"/tmp/benign_all_{os.getpid()}.json"
        sh(f"{CODE}/tools/runall.py --root {W}", cwd=CODE, env=dict(os.environ, XSA_RUNALL_OUT=out))
        s = json.load(open(out)); os.remove(out)
        sh("git checkout -q -- . && git clean -fdq", cwd=W)
        bad = {p: v for p, v in s.items() if v["rc"] != 0}
        res[name] = {"applies": True, "rc": {p: v["rc"] for p, v in bad.items()}, "violations": {p: v["violations"] for p, v in bad.items()}, "errors": {p: v["errors"] for p, v in bad.items()}}
        print(name, {p: v["rc"] for p, v in bad.items()})
json.dump(res, open("/root/benign_results.json", "w"), indent=1)
n = len(res); clean = sum(1 for v in res.values() if v.get("applies") and not v["rc"])
fa = sum(1 for v in res.values() if v.get("applies") and 1 in v["rc"].values())
ae = sum(1 for v in res.values() if v.get("applies") and v["rc"] and 1 not in v["rc"].values())
print(f"{n} refactorings: {clean} clean, {fa} with a false VIOLATION, {ae} with only ANALYSIS-ERROR")
keys = {}
for v in res.values():
    for p, vs in (v.get("violations") or {}).items():
        for l in vs:
            m = re.search(r"\[(C\d+\.R\w+)\] (\S+) \[([^\]]*)\]", l)
            if m: keys.setdefault((m.group(1), m.group(3).split(":")[0]), 0); keys[(m.group(1), m.group(3).split(":")[0])] += 1
for k, n_ in sorted(keys.items()): print("  FA", k, n_)

# human-readable summary kept in /verif (the patches themselves are scratch material and are not kept)
lines = ["# Behaviour-preserving refactorings vs. the checks", "", f"Base: /repo head {B[:8]}. {n} refactorings written by independent sub-agents in two rounds (4 per property and round, pinned suite unchanged for each; round 2 was written after the rules had been generalised on round 1 and serves as held-out material):",
         f"**{clean} clean, {fa} with a false VIOLATION, {ae} with ANALYSIS-ERROR only** (exit 2 = the rule could not recognise the refactored shape and says so).", "",
         "| refactoring | non-zero checks (1 = VIOLATION, 2 = ANALYSIS-ERROR) |", "|---|---|"]
for name, v in sorted(res.items()):
    lines.append(f"| {name} | {v.get('rc') if v.get('applies') else 'patch does not apply'} |")
open("/verif/BENIGN.md", "w").write("\n".join(lines) + "\n")
