#!/bin/bash
# tools/seed_triage.sh <Cxx> ... — quick triage: apply each _out/m*/patch.diff to the scratch worktree /tmp/wt/v and run all checks
W=/tmp/wt/v
[ -d $W ] || git -C /repo worktree add --detach $W HEAD >/dev/null 2>&1
(cd $W && git checkout -q -- . && git checkout -q --detach $(git -C /repo rev-parse HEAD))
for c in "$@"; do for m in /tmp/wt/$c/_out/m*; do
  [ -f $m/patch.diff ] || continue
  echo "=== $c $(basename $m)"
  (cd $W && git apply $m/patch.diff) || { echo "  DOES NOT APPLY"; continue; }
  /verif/tools/runall.py --root $W 2>&1 | cut -c1-330
  (cd $W && git checkout -q -- .)
done; done
