#!/venv/bin/python
"""tools/gen_seed_matrix.py — print the markdown table of DESIGN.md §10 from /verif/seeded/*/meta.json
(one row per kept seeded change: what it needs to manifest, which checks report it, rule and key)."""
import json, os, re
rows = []
for n in sorted(os.listdir("/verif/seeded")):
    p = f"/verif/seeded/{n}/meta.json"
    if not os.path.exists(p):
        continue
    m = json.load(open(p))
    keys = []
    for prop, lines in (m.get("reported_as") or {}).items():
        for l in lines[:1]:
            mm = re.search(r"\[(C\d+\.R\w+)\] \S+ \[([^\]]*)\]", l)
            if mm:
                keys.append(f"{mm.group(1)} `{mm.group(2)[:40]}`")
    det = ", ".join(m.get("detected_by") or []) or ("ANALYSIS-ERROR in " + ", ".join(m.get("analysis_error_in") or []) if m.get("analysis_error_in") else "—")
    rnd = "3" if "-r3n" in n else "2" if "-r2m" in n else "1"
    rows.append((rnd, n, m.get("needs_to_manifest", "").replace("|", "/"), det, "; ".join(keys)))
print("| round | seeded change | needs to manifest | reported by | rule and key |")
print("|---|---|---|---|---|")
for r in rows:
    print(f"| {r[0]} | `{r[1]}` | {r[2]} | {r[3]} | {r[4]} |")
