#!/venv/bin/python
"""Regenerates /verif/MANIFEST.json from the table below (single source of truth for the interface)."""
import json, os, sys
sys.path.insert(0, os.path.dirname(os.path.dirname(os.path.abspath(__file__))))
from xsa.catalog import CHECKS, NOT_APPLICABLE, FIX_COMMITS

def main():
    built = {f[:-3].upper() for f in os.listdir("/verif/xsa/rules") if f.startswith("c") and f.endswith(".py")}
    checks = []
    na = list(NOT_APPLICABLE)
    allp = [json.loads(l)["id"] for l in open("/verif/properties.jsonl")]
    for pid in allp:
        if pid in {n["property_id"] for n in NOT_APPLICABLE}:
            continue
        c = CHECKS.get(pid)
        if c is None or pid not in built:
            na.append({"property_id": pid, "reason": "static rules designed (DESIGN.md §2) but the check is not built yet; not claimed until it is"})
            continue
        checks.append({
            "property_id": pid,
            "quick_cmd": f"/venv/bin/python -m xsa.check {pid} --tier quick",
            "thorough_cmd": f"/venv/bin/python -m xsa.check {pid} --tier thorough",
            "evidence_file": f"/verif/evidence/{pid}.json",
            "replay_cmd_template": f"/venv/bin/python -m xsa.check {pid} --tier quick  # re-derives the report; violation details in {{path}}",
            "engine": "xsa",
            "level_claimed": {"category": "other", "text": c["text"], "design_ref": f"DESIGN.md §2 {pid}"},
            "level_note": c["note"],
            "technique": c["technique"],
        })
    m = {
        "version": 1,
        "setup_cmd": "/venv/bin/python -c \"import ast, sys; sys.path.insert(0, '/verif'); import xsa.check\"",
        "hooks": {
            "guard": "XDSL_VERIF",
            "enable": "no hooks are needed: every check reads /repo's working-tree sources (AST) and never imports or runs xdsl; XDSL_VERIF is declared and unused",
            "baseline_off_cmd": "cd /repo && /venv/bin/python -m pytest -ra -q -p no:cacheprovider --timeout=900 --continue-on-collection-errors",
            "source_commits": FIX_COMMITS,
            "add_only": True,
        },
        "engines": [{"name": "xsa", "path": "/verif/xsa", "serves_properties": [c["property_id"] for c in checks],
                     "kind_free_text": "repository-specific static analyser (pure stdlib): source index + class hierarchy, statement CFG, reaching definitions / derivation, guard (control-dependence) extraction, regular-language inclusion/ambiguity over re._parser ASTs, finite-partition abstract evaluation, table agreement"}],
        "checks": checks,
        "not_applicable": na,
        "notes": "All verdicts are computed from the source of /repo's current working tree without importing or executing xdsl. Genuine defects found are either repaired by fix: commits in /repo or listed in /verif/known_findings.json (printed as KNOWN-FINDING, exit 0); see DESIGN.md §6.",
    }
    json.dump(m, open("/verif/MANIFEST.json", "w"), indent=1, ensure_ascii=False)
    print(f"{len(checks)} checks, {len(na)} not applicable")

main()
