#!/bin/bash
# tools/benign_triage.sh <Cxx> ... — apply each behaviour-preserving refactoring to a scratch worktree of the fixes head and run all checks: any rc != 0 is a false alarm (1) or an over-specific recogniser (2)
W=/tmp/wt/vb
B=$(git -C /tmp/wt/fix rev-parse HEAD)
[ -d $W ] || git -C /repo worktree add --detach $W $B >/dev/null 2>&1
(cd $W && git checkout -q -- . && git checkout -q --detach $B)
for c in "$@"; do for m in /tmp/wt/$c/_out/benign/b*; do
  [ -f $m/patch.diff ] || continue
  echo "=== $c $(basename $m)"
  (cd $W && git apply $m/patch.diff) || { echo "  DOES NOT APPLY"; continue; }
  /verif/tools/runall.py --root $W 2>&1 | cut -c1-400
  (cd $W && git checkout -q -- .)
done; done
