#!/venv/bin/python
"""tools/var.py PROP relpath OLD NEW [relpath OLD NEW ...] — run a check against a scratch copy of /repo/xdsl in which
OLD is replaced by NEW (exact text, first occurrence); evidence goes to the scratch dir. Development aid only."""
import os, shutil, subprocess, sys, tempfile
prop = sys.argv[1]; edits = sys.argv[2:]
tmp = tempfile.mkdtemp(prefix="xsa_var_")
try:
    shutil.copytree("/repo/xdsl", tmp + "/xdsl", ignore=shutil.ignore_patterns("__pycache__"))
    for i in range(0, len(edits), 3):
        p = os.path.join(tmp, edits[i]); s = open(p).read()
        old, new = edits[i + 1].encode().decode("unicode_escape"), edits[i + 2].encode().decode("unicode_escape")
        if old not in s:
            print("OLD TEXT NOT FOUND in", edits[i]); sys.exit(3)
        open(p, "w").write(s.replace(old, new, 1))
    env = dict(os.environ, XSA_REPO=tmp, XSA_EVIDENCE_DIR=tmp + "/ev")
    for pr in prop.split(","):
        r = subprocess.run(["/venv/bin/python", "-m", "xsa.check", pr], cwd="/verif", env=env, capture_output=True, text=True)
        lines = [l for l in (r.stdout + r.stderr).splitlines() if not l.startswith(("KNOWN-FINDING", "NOTE:"))]
        print("\n".join(lines[-12:])); print("rc=", r.returncode)
finally:
    shutil.rmtree(tmp, ignore_errors=True)
