#!/venv/bin/python
"""tools/runall.py [--root DIR] [PROP ...] — run the quick rules of all (or the given) properties against one source
root with a single index build; evidence is written to a scratch directory, never to /verif/evidence.
Prints one line per property: rc and the new (unlisted) findings. Development / seeding aid."""
import contextlib, importlib, io, json, os, sys, tempfile, shutil, traceback
sys.path.insert(0, os.environ.get("XSA_CODE", "/verif"))  # XSA_CODE: run a frozen copy of the checkers (a long evaluation while /verif is edited)
args = sys.argv[1:]
root = None
if args and args[0] == "--root":
    root = args[1]; args = args[2:]
tmp = tempfile.mkdtemp(prefix="xsa_runall_")
os.environ["XSA_EVIDENCE_DIR"] = tmp
if root:
    os.environ["XSA_REPO"] = root
from pathlib import Path
from xsa.report import Report
from xsa.srcindex import Index, AnalysisError
from xsa.catalog import CHECKS  # type: ignore
props = args or [c["id"] if isinstance(c, dict) else c for c in (CHECKS if not isinstance(CHECKS, dict) else CHECKS.keys())]
idx = Index(Path(root) if root else None)
summary = {}
for p in props:
    buf = io.StringIO()
    rc = 2
    try:
        mod = importlib.import_module(f"xsa.rules.{p.lower()}")
        rep = Report(p, "quick")
        with contextlib.redirect_stdout(buf):
            try:
                expl = mod.check(idx, rep, "quick")
            except AnalysisError as e:  # as in xsa.check: a rule group that stops does not erase earlier findings
                rep.analysis_errors.append(str(e))
                expl = "rule evaluation stopped early"
            from xsa import memo_rule
            rep.run(memo_rule.check, idx, rep, p)
            rc = rep.finish(expl, idx)
    except AnalysisError as e:
        buf.write(f"ANALYSIS-ERROR property={p}: {e}\n")
    except Exception:
        buf.write(traceback.format_exc())
    lines = [l for l in buf.getvalue().splitlines() if not l.startswith(("KNOWN-FINDING", "NOTE:"))]
    viol = [l.strip() for l in lines if l.startswith("  ") and "[" in l]
    errs = [l for l in lines if l.startswith("ANALYSIS-ERROR") or "Traceback" in l]
    summary[p] = {"rc": rc, "violations": viol, "errors": errs}
    if rc != 0:
        print(f"{p} rc={rc}")
        for l in viol[:6] + errs[:3]:
            print("   ", l[:300])
print("SUMMARY", json.dumps({p: v["rc"] for p, v in summary.items() if v["rc"] != 0}))
json.dump(summary, open(os.environ.get("XSA_RUNALL_OUT", tmp + "/summary.json"), "w"), indent=1)
if not os.environ.get("XSA_RUNALL_OUT"):
    shutil.rmtree(tmp, ignore_errors=True)
else:
    shutil.rmtree(tmp, ignore_errors=True)
