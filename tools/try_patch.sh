#!/bin/bash
# usage: tools/try_patch.sh <patch.diff> <PROP> [tier]   — apply to /repo, run the check, always revert
set -u
P="$1"; ID="$2"; TIER="${3:-quick}"
cd /verif
if ! git -C /repo diff --quiet; then echo "REPO DIRTY - abort"; exit 3; fi
git -C /repo apply "$P" || { echo "PATCH DOES NOT APPLY"; exit 3; }
/venv/bin/python -m xsa.check "$ID" --tier "$TIER"; rc=$?
git -C /repo checkout -- . 
echo "rc=$rc"
exit $rc
