#!/venv/bin/python
"""tools/seed_verify.py <PROP> <srcdir with patch.diff/demo.py/notes.md> <name> "<what it needs to manifest>"

Confirms a seeded change independently in a scratch worktree of /repo's HEAD (outside /repo and /verif):
demo exits 0 without the patch, non-zero with it; the pinned suite passes with it (only the two pre-existing
failures); then runs every static check against the patched worktree and records which ones report it.
On success the change is kept as /verif/seeded/<name>/ (patch.diff, demo.py, notes.md, meta.json)."""
import json, os, re, shutil, subprocess, sys
prop, src, name, needs = sys.argv[1:5]
skip_suite = "--skip-suite" in sys.argv
W = os.environ.get("SEED_WT", "/tmp/wt/v")
KNOWN_FAIL = {"tests/dialects/test_universe.py::test_multiverse", "tests/xdsl_tblgen/test_tblgen.py::test_run_tblgen_to_py"}
def sh(cmd, cwd=None, **kw):
    return subprocess.run(cmd, cwd=cwd, shell=isinstance(cmd, str), capture_output=True, text=True, **kw)
head = sh("git -C /repo rev-parse HEAD").stdout.strip()
if not os.path.isdir(W):
    sh(f"git -C /repo worktree add --detach {W} HEAD")
sh("git checkout -q -- . && git clean -fdq", cwd=W); sh(f"git checkout -q --detach {head}", cwd=W)
assert sh("git rev-parse HEAD", cwd=W).stdout.strip() == head
patch = os.path.join(src, "patch.diff")
r = sh(f"git apply --check {patch}", cwd=W)
if r.returncode != 0:
    print("PATCH DOES NOT APPLY to current HEAD:", r.stderr.strip()[:300]); sys.exit(3)
k = os.path.basename(os.path.normpath(src))
os.makedirs(f"{W}/_out/{k}", exist_ok=True)
shutil.copy(os.path.join(src, "demo.py"), f"{W}/_out/{k}/demo.py")
demo = f"/venv/bin/python _out/{k}/demo.py"
r0 = sh(demo, cwd=W, timeout=600)
print("demo pristine rc", r0.returncode)
sh(f"git apply {patch}", cwd=W)
r1 = sh(demo, cwd=W, timeout=600)
print("demo patched  rc", r1.returncode, (r1.stdout + r1.stderr).strip().splitlines()[-1:] )
suite = "skipped"
failed = set()
if not skip_suite:
    rs = sh("/venv/bin/python -m pytest -q -p no:cacheprovider --timeout=900 --continue-on-collection-errors -n 8 2>&1 | tail -15", cwd=W, timeout=3000)
    failed = set(re.findall(r"^(?:FAILED|ERROR) (\S+)", rs.stdout, re.M))
    suite = rs.stdout.strip().splitlines()[-1]
    print("suite:", suite, "| unexpected:", sorted(failed - KNOWN_FAIL))
out = f"/tmp/seed_runall_{os.getpid()}.json"
ra = sh(f"/verif/tools/runall.py --root {W}", cwd="/verif", env=dict(os.environ, XSA_RUNALL_OUT=out))
summ = json.load(open(out)); os.remove(out)
detected = sorted(p for p, v in summ.items() if v["rc"] == 1)
errors = sorted(p for p, v in summ.items() if v["rc"] == 2)
print("detected_by:", detected, "analysis_errors:", errors)
for p in detected + errors:
    for l in (summ[p]["violations"] + summ[p]["errors"])[:3]:
        print("   ", p, l[:260])
sh("git checkout -q -- . && git clean -fdq", cwd=W)
ok = r0.returncode == 0 and r1.returncode != 0 and not (failed - KNOWN_FAIL)
if not ok:
    print("NOT CONFIRMED"); sys.exit(1)
dst = f"/verif/seeded/{name}"
os.makedirs(dst, exist_ok=True)
for f in ("patch.diff", "demo.py", "notes.md"):
    if os.path.exists(os.path.join(src, f)):
        shutil.copy(os.path.join(src, f), os.path.join(dst, f))
meta = {
    "property": prop,
    "breaks": prop,
    "needs_to_manifest": needs,
    "base_commit": head,
    "ran": [
        f"scratch worktree of /repo HEAD under /tmp/wt/v; demo copied to _out/{k}/demo.py and run as `{demo}` from the worktree root",
        "demo without patch: exit 0", f"demo with patch: exit {r1.returncode}",
        f"pinned suite with patch (-n 8): {suite}; failures outside the two pre-existing ones: {sorted(failed - KNOWN_FAIL)}",
        "tools/runall.py --root <worktree>: every quick check against the patched sources",
    ],
    "demo_message": (r1.stdout + r1.stderr).strip().splitlines()[-1:] ,
    "detected_by": detected,
    "analysis_error_in": errors,
    "reported_as": {p: summ[p]["violations"][:2] for p in detected},
}
json.dump(meta, open(os.path.join(dst, "meta.json"), "w"), indent=1)
print("KEPT", dst, "DETECTED" if detected else "MISSED")
