#!/venv/bin/python
"""tools/seed_recheck.py [name ...] — re-evaluate which checks report each kept seeded change, against the current
/repo HEAD: scratch worktree (outside /repo and /verif), baseline run of every check on the clean tree, then each
patch applied in turn (skipped with a note if it no longer applies). Updates detected_by / reported_as /
base_commit in /verif/seeded/<name>/meta.json. The demo and the pinned suite are NOT re-run here (see meta 'ran')."""
import json, os, subprocess, sys
W = os.environ.get("SEED_WT", "/tmp/wt/v")
CODE = os.environ.get("XSA_CODE", "/verif")  # where the checkers are run from (a frozen copy during long evaluations)
def sh(cmd, cwd=None, env=None):
    return subprocess.run(cmd, cwd=cwd, shell=True, capture_output=True, text=True, env=env)
head = sh("git -C /repo rev-parse HEAD").stdout.strip()
if not os.path.isdir(W):
    sh(f"git -C /repo worktree add --detach {W} HEAD")
sh("git checkout -q -- . && git clean -fdq", cwd=W); sh(f"git checkout -q --detach {head}", cwd=W)
def runall():
    out = f"/tmp/seed_recheck_{os.getpid()}.json"
    sh(f"{CODE}/tools/runall.py --root {W}", cwd=CODE, env=dict(os.environ, XSA_RUNALL_OUT=out))
    d = json.load(open(out)); os.remove(out); return d
base = runall()
bad_base = {p: v for p, v in base.items() if v["rc"] != 0}
if bad_base:
    print("WARNING: checks not clean on the unchanged tree:", {p: v["rc"] for p, v in bad_base.items()})
names = sys.argv[1:] or sorted(os.listdir("/verif/seeded"))
tot = det = 0
for n in names:
    d = f"/verif/seeded/{n}"
    if not os.path.exists(f"{d}/meta.json"):
        continue
    meta = json.load(open(f"{d}/meta.json"))
    r = sh(f"git apply {d}/patch.diff", cwd=W)
    if r.returncode != 0:
        print(f"{n}: patch no longer applies to {head[:8]}: {r.stderr.strip()[:100]}")
        meta["applies_to_head"] = False
        json.dump(meta, open(f"{d}/meta.json", "w"), indent=1)
        continue
    s = runall()
    sh("git checkout -q -- . && git clean -fdq", cwd=W)
    detected = sorted(p for p, v in s.items() if v["rc"] == 1 and set(v["violations"]) - set(base.get(p, {}).get("violations", [])))
    errors = sorted(p for p, v in s.items() if v["rc"] == 2 and base.get(p, {}).get("rc") != 2)
    meta.update({"applies_to_head": True, "rechecked_at_commit": head, "detected_by": detected, "analysis_error_in": errors,
                 "reported_as": {p: [x for x in s[p]["violations"] if x not in base.get(p, {}).get("violations", [])][:2] for p in detected}})
    json.dump(meta, open(f"{d}/meta.json", "w"), indent=1)
    tot += 1; det += bool(detected)
    print(f"{n}: detected_by={detected} errors={errors}")
print(f"{det}/{tot} seeded changes reported by at least one check")
