#!/venv/bin/python
"""tools/seed_mm.py <transform>[,<transform>...] [name ...] — detection under spelling changes: every kept seeded change is
applied to a scratch worktree, the tree is then rewritten with the given metamorphic transform(s) (xsa/metamorph.py), and
the checks that report the seed on the plain tree are run on the result.  Prints the seeds that are no longer reported
(ANALYSIS-ERROR is listed separately).  Nothing is written to /verif."""
import json, os, subprocess, sys
CODE = os.environ.get("XSA_CODE", "/verif")
W = os.environ.get("SEED_WT", "/tmp/wt/v3")
def sh(cmd, cwd=None, env=None):
    return subprocess.run(cmd, cwd=cwd, shell=True, capture_output=True, text=True, env=env)
transforms = sys.argv[1].split(",")
names = sys.argv[2:] or sorted(os.listdir("/verif/seeded"))
head = sh("git -C /repo rev-parse HEAD").stdout.strip()
if not os.path.isdir(W):
    sh(f"git -C /repo worktree add --detach {W} HEAD")
lost, undecided, ok = [], [], 0
for n in names:
    d = f"/verif/seeded/{n}"
    if not os.path.exists(f"{d}/meta.json"):
        continue
    meta = json.load(open(f"{d}/meta.json"))
    props = meta.get("detected_by") or []
    if not props:
        continue
    sh("git checkout -q -- . && git clean -fdq", cwd=W); sh(f"git checkout -q --detach {head}", cwd=W)
    if sh(f"git apply {d}/patch.diff", cwd=W).returncode != 0:
        print(f"{n}: does not apply"); continue
    for t in transforms:
        sh(f"/venv/bin/python {CODE}/tools/metamorph.py {t} {W}", env=dict(os.environ, XSA_CODE=CODE))
    out = f"/tmp/seed_mm_{os.getpid()}.json"
    sh(f"{CODE}/tools/runall.py --root {W} {' '.join(props)}", cwd=CODE, env=dict(os.environ, XSA_RUNALL_OUT=out, XSA_CODE=CODE))
    try:
        res = json.load(open(out))
    except Exception:
        res = {}
    rcs = {p: (res.get(p, {}).get("rc") if isinstance(res.get(p), dict) else res.get(p)) for p in props}
    if any(v == 1 for v in rcs.values()):
        ok += 1
    elif any(v == 2 for v in rcs.values()):
        undecided.append(n); print(f"{n}: UNDECIDED {rcs}", flush=True)
    else:
        lost.append(n); print(f"{n}: LOST {rcs}", flush=True)
sh("git checkout -q -- . && git clean -fdq", cwd=W)
print(f"{'+'.join(transforms)}: {ok} reported, {len(undecided)} undecided, {len(lost)} lost")
