#!/bin/bash
# tools/benign_one.sh <Cxx> [props...] — apply each benign refactoring of Cxx to the scratch worktree and run only the given checks (default: Cxx)
W=/tmp/wt/vb
B=$(git -C /tmp/wt/fix rev-parse HEAD)
[ -d $W ] || git -C /repo worktree add --detach $W $B >/dev/null 2>&1
(cd $W && git checkout -q -- . && git checkout -q --detach $B)
c=$1; shift; props="${@:-$c}"
for m in /tmp/wt/$c/_out/benign/b*; do
  [ -f $m/patch.diff ] || continue
  echo "=== $c $(basename $m)"
  (cd $W && git apply $m/patch.diff) || { echo "  DOES NOT APPLY"; continue; }
  /verif/tools/runall.py --root $W $props 2>&1 | cut -c1-420
  (cd $W && git checkout -q -- .)
done
