#!/venv/bin/python
"""tools/metamorph.py <transform> <root> [--files a.py b.py] — rewrite <root>/xdsl in place (a scratch worktree!) with one
of the behaviour-preserving transforms of xsa/metamorph.py (see its docstring for the list)."""
import os
import sys
from pathlib import Path

sys.path.insert(0, os.environ.get("XSA_CODE", "/verif"))
from xsa.metamorph import TRANSFORMS, rewrite_tree  # noqa: E402
import xsa.metamorph as _m  # noqa: E402


def main() -> int:
    if len(sys.argv) < 3 or sys.argv[1] not in TRANSFORMS:
        print(_m.__doc__)
        return 2
    tname, root = sys.argv[1], Path(sys.argv[2])
    files = [root / f for f in sys.argv[4:]] if len(sys.argv) > 3 and sys.argv[3] == "--files" else None
    n = rewrite_tree(tname, root, files)
    print(f"{tname}: rewrote {n} files under {root}")
    return 0


if __name__ == "__main__":
    raise SystemExit(main())
