#!/venv/bin/python
"""tools/adopt.py <PROP> [key-substring ...] — copy the entries of evidence/<PROP>.violation.json into
known_findings.json as status=open (manual step after triage: only for genuine defects probed against the real code)."""
import json, sys
prop = sys.argv[1]; subs = sys.argv[2:]
import subprocess
assert subprocess.run(['git','-C','/repo','diff','--quiet']).returncode == 0, 'repo dirty'
subprocess.run(['/venv/bin/python','-m','xsa.check',prop], cwd='/verif', capture_output=True)
kf = json.load(open('/verif/known_findings.json'))
viol = json.load(open(f'/verif/evidence/{prop}.violation.json'))
n = 0
for v in viol:
    if subs and not any(s in v['key'] or s in v['construct'] or s in v['rule'] for s in subs):
        continue
    if any(k['rule'] == v['rule'] and k['construct'] == v['construct'] and k['key'] == v['key'] and k['property'] == prop for k in kf['findings']):
        continue
    kf['findings'].append({"property": prop, "rule": v['rule'], "construct": v['construct'], "key": v['key'], "status": "open", "witness": "", "what": v['message']})
    n += 1
json.dump(kf, open('/verif/known_findings.json', 'w'), indent=1, ensure_ascii=False)
print('adopted', n)
