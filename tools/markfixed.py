#!/venv/bin/python
"""tools/markfixed.py <commit> <PROP> <rule> <key-substring> [more PROP rule key ...] — mark open entries as fixed by <commit>."""
import json, sys
commit = sys.argv[1]; rest = sys.argv[2:]
kf = json.load(open('/verif/known_findings.json'))
n = 0
for i in range(0, len(rest), 3):
    prop, rule, key = rest[i:i+3]
    for k in kf['findings']:
        if k['property'] == prop and k['rule'] == rule and key in (k['key'] + ' ' + k['construct']) and k['status'] == 'open':
            k['status'] = 'fixed'; k['commit'] = commit
            k['fixed'] = f"fixed: property={prop} {commit} {k.get('what','')[:160]}"
            n += 1
json.dump(kf, open('/verif/known_findings.json', 'w'), indent=1, ensure_ascii=False)
print('marked', n)
